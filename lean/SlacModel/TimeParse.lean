/-
  SlacModel.TimeParse — the parsing half of chrono 0.4.45 `format`: the scanners (scan.rs), the item-driven parser
  (parse.rs `parse_internal`, `parse_rfc2822`, `parse_rfc3339`, `parse_rfc3339_relaxed`), the field collection
  `Parsed` with its consistency rules (parsed.rs `to_naive_date`, `to_naive_time`, `to_naive_datetime_with_offset`,
  `to_datetime`).  Used by `string_to_date/time/datetime` (any format argument) and `date_from_rfc2822/3339`.

  chrono scans UTF-8 bytes; this model scans characters.  The two agree because every scanner either tests ASCII
  bytes (a multi-byte character is then simply "not the expected byte") or trims whole characters; only the
  *length* tests (`s.len() < n`, error kind TooShort instead of Invalid) need the UTF-8 length, `utf8Len`.
  Error kinds (`PErr`) are chrono's `ParseErrorKind`; time.rs turns them into `CustomError(message)`.
  One place in chrono overflows `i32`: `NaiveDate::from_isoywd_opt` on ISO year `i32::MIN`/`i32::MAX` (reachable
  through `%G`) computes `year - 1` / `year + 1`.  A build with overflow checks panics there; without them the
  value wraps and the result is `OutOfRange`.  `fromIsoYwd` has the wrapping result, `isoOverflow` is the
  predicate "this call overflows", and `string_to_date/datetime` answer "unmodelled" exactly when it holds
  (`Parsed.dateOverflow`, `Parsed.datetimeOverflow`).
-/
import SlacModel.TimeFmt
set_option autoImplicit false
namespace Slac
namespace Time

inductive PErr where
  | outOfRange | impossible | notEnough | invalid | tooShort | tooLong | badFormat
deriving DecidableEq, Repr

/-- `impl Display for ParseError` -/
def PErr.msg : PErr → String
  | .outOfRange => "input is out of range"
  | .impossible => "no possible date and time matching input"
  | .notEnough => "input is not enough for unique date and time"
  | .invalid => "input contains invalid characters"
  | .tooShort => "premature end of input"
  | .tooLong => "trailing input"
  | .badFormat => "bad or unsupported format string"

abbrev PRes (α : Type) := Except PErr α

/-- `str::len` -/
def utf8Len : Str → Nat
  | [] => 0
  | c :: r => c.utf8Size + utf8Len r
/-- `str::trim_start` -/
def trimStart (s : Str) : Str := s.dropWhile isWs
def isDigit (c : Char) : Bool := (digit? c).isSome
/-- `u8::to_ascii_lowercase` on a character -/
def asciiLower (c : Char) : Char := if 'A' ≤ c ∧ c ≤ 'Z' then Char.ofNat (c.toNat + 32) else c
def isAsciiAlpha (c : Char) : Bool := (decide ('a' ≤ c) && decide (c ≤ 'z')) || (decide ('A' ≤ c) && decide (c ≤ 'Z'))

def i64Max : Nat := 9223372036854775807
def i32Min : Int := -2147483648
def i32Max : Int := 2147483647
/-- `usize::MAX` as a width: no limit -/
def noLimit : Nat := 18446744073709551615

/-! ### scan.rs -/

/-- the loop of `scan::number`: `i` digits read so far, value `acc` -/
def numberGo (min max : Nat) : Str → Nat → Nat → PRes (Str × Nat)
  | [], _, acc => .ok ([], acc)
  | c :: r, i, acc =>
    if max ≤ i then .ok (c :: r, acc) else
    match digit? c with
    | none => if i < min then .error .invalid else .ok (c :: r, acc)
    | some d => if acc * 10 + d > i64Max then .error .outOfRange else numberGo min max r (i + 1) (acc * 10 + d)

/-- `scan::number(s, min, max)`: between `min` and `max` digits, value within `i64` -/
def number (s : Str) (min max : Nat) : PRes (Str × Nat) :=
  if utf8Len s < min then .error .tooShort else numberGo min max s 0 0

/-- `scan::nanosecond`: 1–9 digits scaled to nanoseconds, further digits skipped (truncation, no rounding) -/
def nanosecond (s : Str) : PRes (Str × Nat) :=
  match number s 1 9 with
  | .error e => .error e
  | .ok (s', v) => .ok (s'.dropWhile isDigit, v * 10 ^ (9 - (s.length - s'.length)))

/-- `scan::nanosecond_fixed(s, digits)` -/
def nanosecondFixed (s : Str) (digits : Nat) : PRes (Str × Nat) :=
  match number s digits digits with
  | .error e => .error e
  | .ok (s', v) => .ok (s', v * 10 ^ (9 - digits))

def month3 (a b c : Char) : Option Nat :=
  match asciiLower a, asciiLower b, asciiLower c with
  | 'j', 'a', 'n' => some 0 | 'f', 'e', 'b' => some 1 | 'm', 'a', 'r' => some 2 | 'a', 'p', 'r' => some 3
  | 'm', 'a', 'y' => some 4 | 'j', 'u', 'n' => some 5 | 'j', 'u', 'l' => some 6 | 'a', 'u', 'g' => some 7
  | 's', 'e', 'p' => some 8 | 'o', 'c', 't' => some 9 | 'n', 'o', 'v' => some 10 | 'd', 'e', 'c' => some 11
  | _, _, _ => none

/-- Monday = 0 -/
def weekday3 (a b c : Char) : Option Nat :=
  match asciiLower a, asciiLower b, asciiLower c with
  | 'm', 'o', 'n' => some 0 | 't', 'u', 'e' => some 1 | 'w', 'e', 'd' => some 2 | 't', 'h', 'u' => some 3
  | 'f', 'r', 'i' => some 4 | 's', 'a', 't' => some 5 | 's', 'u', 'n' => some 6
  | _, _, _ => none

/-- `scan::short_month0` (month index 0–11) -/
def shortMonth0 (s : Str) : PRes (Str × Nat) :=
  if utf8Len s < 3 then .error .tooShort else
  match s with
  | a :: b :: c :: r => match month3 a b c with
    | some m => .ok (r, m)
    | none => .error .invalid
  | _ => .error .invalid

/-- `scan::short_weekday` -/
def shortWeekday (s : Str) : PRes (Str × Nat) :=
  if utf8Len s < 3 then .error .tooShort else
  match s with
  | a :: b :: c :: r => match weekday3 a b c with
    | some w => .ok (r, w)
    | none => .error .invalid
  | _ => .error .invalid

/-- consume `suffix` (lower-case ASCII) if the text starts with it, ignoring ASCII case -/
def dropSuffixCI (suffix s : Str) : Str :=
  if (s.take suffix.length).map asciiLower = suffix then s.drop suffix.length else s

def longMonthSuffix (m0 : Nat) : Str := ((longMonthName (m0 + 1)).drop 3).map asciiLower
def longWeekdaySuffix (wd : Nat) : Str := ((longWeekdayName wd).drop 3).map asciiLower

/-- `scan::short_or_long_month0` -/
def shortOrLongMonth0 (s : Str) : PRes (Str × Nat) :=
  match shortMonth0 s with
  | .error e => .error e
  | .ok (r, m) => .ok (dropSuffixCI (longMonthSuffix m) r, m)

/-- `scan::short_or_long_weekday` -/
def shortOrLongWeekday (s : Str) : PRes (Str × Nat) :=
  match shortWeekday s with
  | .error e => .error e
  | .ok (r, w) => .ok (dropSuffixCI (longWeekdaySuffix w) r, w)

/-- `scan::char` -/
def scanChar (s : Str) (c1 : Char) : PRes Str :=
  match s with
  | [] => .error .tooShort
  | c :: r => if c = c1 then .ok r else .error .invalid

/-- `scan::space`: one or more white space -/
def scanSpace (s : Str) : PRes Str :=
  match s with
  | [] => .error .tooShort
  | c :: r => if isWs c then .ok (trimStart r) else .error .invalid

/-- `scan::colon_or_space` -/
def colonOrSpace (s : Str) : Str := s.dropWhile fun c => c == ':' || isWs c

/-- the `consume_colon` argument of `scan::timezone_offset` -/
inductive ColonMode where
  | strict        -- `|s| scan::char(s, b':')`   (RFC 3339)
  | lenient       -- `scan::colon_or_space`      (`%z` family)
  | absent        -- `|s| Ok(s)`                 (RFC 2822)
deriving DecidableEq, Repr

def consumeColon (cm : ColonMode) (s : Str) : PRes Str :=
  match cm with
  | .strict => scanChar s ':'
  | .lenient => .ok (colonOrSpace s)
  | .absent => .ok s

/-- two ASCII digits at the start (`digits` + the range patterns of `timezone_offset`) -/
def twoDigits (s : Str) : PRes (Nat × Nat) :=
  if utf8Len s < 2 then .error .tooShort else
  match s with
  | a :: b :: _ => match digit? a, digit? b with
    | some x, some y => .ok (x, y)
    | _, _ => .error .invalid
  | _ => .error .invalid

/-- `scan::timezone_offset(s, consume_colon, allow_zulu, allow_missing_minutes, allow_tz_minus_sign)`: seconds east -/
def timezoneOffset (s : Str) (cm : ColonMode) (zulu missing minus : Bool) : PRes (Str × Int) :=
  match s with
  | [] => .error .tooShort
  | c :: s1 =>
    if zulu && (c == 'Z' || c == 'z') then .ok (s1, 0) else
    let sign : PRes Bool :=
      if c = '+' then .ok false else if c = '-' then .ok true
      else if c = Char.ofNat 0x2212 then (if minus then .ok true else .error .invalid)
      else .error .invalid
    match sign with
    | .error e => .error e
    | .ok neg =>
      match twoDigits s1 with
      | .error e => .error e
      | .ok (h1, h2) =>
        match consumeColon cm (s1.drop 2) with
        | .error e => .error e
        | .ok s3 =>
          let mins : PRes (Nat × Str) :=
            if utf8Len s3 < 2 then
              (if missing then (if s3 = [] then .ok (0, []) else .error .tooShort) else .error .tooShort)
            else match twoDigits s3 with
              | .error e => .error e
              | .ok (m1, m2) => if m1 ≤ 5 then .ok (m1 * 10 + m2, s3.drop 2) else .error .outOfRange
          match mins with
          | .error e => .error e
          | .ok (m, s4) =>
            let secs : Int := (((h1 * 10 + h2) * 3600 + m * 60 : Nat) : Int)
            .ok (s4, if neg then -secs else secs)

/-- the zone names of RFC 2822 section 4.3 (lower-cased): hours east; single military letters count as 0 -/
def zoneName (name : Str) : Option Int :=
  if name = ['g', 'm', 't'] ∨ name = ['u', 't'] ∨ name = ['z'] then some 0
  else if name = ['e', 'd', 't'] then some (-4)
  else if name = ['e', 's', 't'] ∨ name = ['c', 'd', 't'] then some (-5)
  else if name = ['c', 's', 't'] ∨ name = ['m', 'd', 't'] then some (-6)
  else if name = ['m', 's', 't'] ∨ name = ['p', 'd', 't'] then some (-7)
  else if name = ['p', 's', 't'] then some (-8)
  else match name with
    | [c] => if (decide ('a' ≤ c) && decide (c ≤ 'i')) || (decide ('k' ≤ c) && decide (c ≤ 'y')) then some 0 else none
    | _ => none

/-- `scan::timezone_offset_2822` -/
def timezoneOffset2822 (s : Str) : PRes (Str × Int) :=
  let name := s.takeWhile isAsciiAlpha
  if name ≠ [] then
    match zoneName (name.map asciiLower) with
    | some h => .ok (s.dropWhile isAsciiAlpha, h * 3600)
    | none => .error .invalid
  else timezoneOffset s .absent false false false

/-- `scan::comment_2822` after the opening parenthesis: nesting depth `d`, `esc` after a backslash -/
def commentGo : Str → Nat → Bool → PRes Str
  | [], _, _ => .error .tooShort
  | _ :: r, d, true => commentGo r d false
  | c :: r, d, false =>
    if c = '\\' then commentGo r d true
    else if c = '(' then commentGo r (d + 1) false
    else if c = ')' then (if d ≤ 1 then .ok r else commentGo r (d - 1) false)
    else commentGo r d false

def comment2822 (s : Str) : PRes Str :=
  match trimStart s with
  | [] => .error .tooShort
  | c :: r => if c = '(' then commentGo r 1 false else .error .invalid

/-- `while let Ok((s_out, ())) = scan::comment_2822(s) { s = s_out }` -/
def skipComments : Nat → Str → Str
  | 0, s => s
  | fuel + 1, s => match comment2822 s with
    | .ok s' => skipComments fuel s'
    | .error _ => s

/-! ### parsed.rs: the collected fields -/

structure Parsed where
  year : Option Int := none
  yearDiv100 : Option Int := none
  yearMod100 : Option Int := none
  isoYear : Option Int := none
  isoYearMod100 : Option Int := none
  quarter : Option Nat := none
  month : Option Nat := none
  weekFromSun : Option Nat := none
  weekFromMon : Option Nat := none
  isoWeek : Option Nat := none
  weekday : Option Nat := none          -- Monday = 0
  ordinal : Option Nat := none
  day : Option Nat := none
  hourDiv12 : Option Nat := none
  hourMod12 : Option Nat := none
  minute : Option Nat := none
  second : Option Nat := none
  nanosecond : Option Nat := none
  timestamp : Option Int := none
  offset : Option Int := none
deriving DecidableEq, Repr

/-- `set_if_consistent` -/
def setIf {α : Type} [DecidableEq α] (old : Option α) (new : α) : PRes (Option α) :=
  match old with
  | some o => if o = new then .ok (some new) else .error .impossible
  | none => .ok (some new)

def inR (lo hi v : Int) : Bool := decide (lo ≤ v) && decide (v ≤ hi)

namespace Parsed
def setYear (p : Parsed) (v : Int) : PRes Parsed :=
  if inR i32Min i32Max v then (setIf p.year v).map fun x => { p with year := x } else .error .outOfRange
def setYearDiv100 (p : Parsed) (v : Int) : PRes Parsed :=
  if inR 0 i32Max v then (setIf p.yearDiv100 v).map fun x => { p with yearDiv100 := x } else .error .outOfRange
def setYearMod100 (p : Parsed) (v : Int) : PRes Parsed :=
  if inR 0 99 v then (setIf p.yearMod100 v).map fun x => { p with yearMod100 := x } else .error .outOfRange
def setIsoYear (p : Parsed) (v : Int) : PRes Parsed :=
  if inR i32Min i32Max v then (setIf p.isoYear v).map fun x => { p with isoYear := x } else .error .outOfRange
def setIsoYearMod100 (p : Parsed) (v : Int) : PRes Parsed :=
  if inR 0 99 v then (setIf p.isoYearMod100 v).map fun x => { p with isoYearMod100 := x } else .error .outOfRange
def setQuarter (p : Parsed) (v : Int) : PRes Parsed :=
  if inR 1 4 v then (setIf p.quarter v.toNat).map fun x => { p with quarter := x } else .error .outOfRange
def setMonth (p : Parsed) (v : Int) : PRes Parsed :=
  if inR 1 12 v then (setIf p.month v.toNat).map fun x => { p with month := x } else .error .outOfRange
def setWeekFromSun (p : Parsed) (v : Int) : PRes Parsed :=
  if inR 0 53 v then (setIf p.weekFromSun v.toNat).map fun x => { p with weekFromSun := x } else .error .outOfRange
def setWeekFromMon (p : Parsed) (v : Int) : PRes Parsed :=
  if inR 0 53 v then (setIf p.weekFromMon v.toNat).map fun x => { p with weekFromMon := x } else .error .outOfRange
def setIsoWeek (p : Parsed) (v : Int) : PRes Parsed :=
  if inR 1 53 v then (setIf p.isoWeek v.toNat).map fun x => { p with isoWeek := x } else .error .outOfRange
def setWeekday (p : Parsed) (wd : Nat) : PRes Parsed :=
  (setIf p.weekday wd).map fun x => { p with weekday := x }
/-- `set_weekday_with_num_days_from_sunday` (`%w`): 0 = Sunday … 6 = Saturday -/
def setWeekdayFromSun (p : Parsed) (v : Int) : PRes Parsed :=
  if inR 0 6 v then p.setWeekday ((v.toNat + 6) % 7) else .error .outOfRange
/-- `set_weekday_with_number_from_monday` (`%u`): 1 = Monday … 7 = Sunday -/
def setWeekdayFromMon (p : Parsed) (v : Int) : PRes Parsed :=
  if inR 1 7 v then p.setWeekday (v.toNat - 1) else .error .outOfRange
def setOrdinal (p : Parsed) (v : Int) : PRes Parsed :=
  if inR 1 366 v then (setIf p.ordinal v.toNat).map fun x => { p with ordinal := x } else .error .outOfRange
def setDay (p : Parsed) (v : Int) : PRes Parsed :=
  if inR 1 31 v then (setIf p.day v.toNat).map fun x => { p with day := x } else .error .outOfRange
def setAmPm (p : Parsed) (pm : Bool) : PRes Parsed :=
  (setIf p.hourDiv12 (if pm then 1 else 0)).map fun x => { p with hourDiv12 := x }
def setHour12 (p : Parsed) (v : Int) : PRes Parsed :=
  if inR 1 12 v then (setIf p.hourMod12 (v.toNat % 12)).map fun x => { p with hourMod12 := x } else .error .outOfRange
def setHour (p : Parsed) (v : Int) : PRes Parsed :=
  if inR 0 23 v then
    match setIf p.hourDiv12 (v.toNat / 12) with
    | .error e => .error e
    | .ok d => (setIf p.hourMod12 (v.toNat % 12)).map fun x => { p with hourDiv12 := d, hourMod12 := x }
  else .error .outOfRange
def setMinute (p : Parsed) (v : Int) : PRes Parsed :=
  if inR 0 59 v then (setIf p.minute v.toNat).map fun x => { p with minute := x } else .error .outOfRange
def setSecond (p : Parsed) (v : Int) : PRes Parsed :=
  if inR 0 60 v then (setIf p.second v.toNat).map fun x => { p with second := x } else .error .outOfRange
def setNanosecond (p : Parsed) (v : Int) : PRes Parsed :=
  if inR 0 999999999 v then (setIf p.nanosecond v.toNat).map fun x => { p with nanosecond := x } else .error .outOfRange
def setTimestamp (p : Parsed) (v : Int) : PRes Parsed :=
  (setIf p.timestamp v).map fun x => { p with timestamp := x }
def setOffset (p : Parsed) (v : Int) : PRes Parsed :=
  if inR i32Min i32Max v then (setIf p.offset v).map fun x => { p with offset := x } else .error .outOfRange
end Parsed

/-! ### parse.rs: items -/

def setNumeric (n : Numeric) (p : Parsed) (v : Int) : PRes Parsed :=
  match n with
  | .year => p.setYear v | .yearDiv100 => p.setYearDiv100 v | .yearMod100 => p.setYearMod100 v
  | .isoYear => p.setIsoYear v | .isoYearMod100 => p.setIsoYearMod100 v | .quarter => p.setQuarter v
  | .month => p.setMonth v | .day => p.setDay v | .weekFromSun => p.setWeekFromSun v
  | .weekFromMon => p.setWeekFromMon v | .isoWeek => p.setIsoWeek v | .numDaysFromSun => p.setWeekdayFromSun v
  | .weekdayFromMon => p.setWeekdayFromMon v | .ordinal => p.setOrdinal v | .hour => p.setHour v
  | .hour12 => p.setHour12 v | .minute => p.setMinute v | .second => p.setSecond v
  | .nanosecond => p.setNanosecond v | .timestamp => p.setTimestamp v

/-- the intrinsic parsing width of a numeric item -/
def numericWidth : Numeric → Nat
  | .year | .isoYear => 4
  | .quarter | .numDaysFromSun | .weekdayFromMon => 1
  | .ordinal => 3
  | .nanosecond => 9
  | .timestamp => noLimit
  | _ => 2

def numericSigned : Numeric → Bool
  | .year | .isoYear => true
  | _ => false

/-- `Item::Numeric`: leading white space skipped, padding ignored, a signed item with an explicit sign has no width limit -/
def parseNumeric (n : Numeric) (s : Str) (p : Parsed) : PRes (Str × Parsed) :=
  let s := trimStart s
  let r : PRes (Str × Int) :=
    if numericSigned n && s.head? == some '-' then (number s.tail 1 noLimit).map fun (s', v) => (s', -(v : Int))
    else if numericSigned n && s.head? == some '+' then (number s.tail 1 noLimit).map fun (s', v) => (s', (v : Int))
    else (number s 1 (numericWidth n)).map fun (s', v) => (s', (v : Int))
  match r with
  | .error e => .error e
  | .ok (s', v) => (setNumeric n p v).map fun p' => (s', p')

/-- `Item::Literal` -/
def parseLiteral (lit s : Str) : PRes Str :=
  if utf8Len s < utf8Len lit then .error .tooShort
  else if s.take lit.length = lit then .ok (s.drop lit.length) else .error .invalid

def setOffsetFrom (p : Parsed) (r : PRes (Str × Int)) : PRes (Str × Parsed) :=
  match r with
  | .error e => .error e
  | .ok (s', off) => (p.setOffset off).map fun p' => (s', p')

def setNanoFrom (p : Parsed) (r : PRes (Str × Nat)) : PRes (Str × Parsed) :=
  match r with
  | .error e => .error e
  | .ok (s', v) => (p.setNanosecond v).map fun p' => (s', p')

/-- the relaxed RFC 3339 date part `Year Space "-" Month Space "-" Day` -/
def relaxedDate (s : Str) (p : Parsed) : PRes (Str × Parsed) := do
  let (s, p) ← parseNumeric .year s p
  let s ← parseLiteral ['-'] (trimStart s)
  let (s, p) ← parseNumeric .month s p
  let s ← parseLiteral ['-'] (trimStart s)
  parseNumeric .day s p

/-- `Fixed::Nanosecond`: an optional `.` followed by 1+ digits -/
def parseNanosecond (s : Str) (p : Parsed) : PRes (Str × Parsed) :=
  match s with
  | '.' :: r => setNanoFrom p (nanosecond r)
  | _ => .ok (s, p)

/-- `parse_rfc3339_relaxed` (the `%+` item) -/
def parseRfc3339Relaxed (s : Str) (p : Parsed) : PRes (Str × Parsed) := do
  let (s, p) ← relaxedDate s p
  let s ← match s with
    | [] => .error .tooShort
    | c :: r => if c = 't' ∨ c = 'T' ∨ c = ' ' then .ok r else .error .invalid
  let (s, p) ← parseNumeric .hour s p
  let s ← parseLiteral [':'] (trimStart s)
  let (s, p) ← parseNumeric .minute s p
  let s ← parseLiteral [':'] (trimStart s)
  let (s, p) ← parseNumeric .second s p
  let (s, p) ← parseNanosecond s p
  let s := trimStart s
  if (s.take 3).map asciiLower = ['u', 't', 'c'] then (p.setOffset 0).map fun p' => (s.drop 3, p')
  else setOffsetFrom p (timezoneOffset s .lenient true false true)

def parseFixed (f : Fixed) (s : Str) (p : Parsed) : PRes (Str × Parsed) :=
  match f with
  | .shortMonthName => match shortMonth0 s with
    | .error e => .error e
    | .ok (s', m) => (p.setMonth (m + 1 : Nat)).map fun p' => (s', p')
  | .longMonthName => match shortOrLongMonth0 s with
    | .error e => .error e
    | .ok (s', m) => (p.setMonth (m + 1 : Nat)).map fun p' => (s', p')
  | .shortWeekdayName => match shortWeekday s with
    | .error e => .error e
    | .ok (s', w) => (p.setWeekday w).map fun p' => (s', p')
  | .longWeekdayName => match shortOrLongWeekday s with
    | .error e => .error e
    | .ok (s', w) => (p.setWeekday w).map fun p' => (s', p')
  | .lowerAmPm | .upperAmPm =>
    if utf8Len s < 2 then .error .tooShort else
    match s with
    | a :: b :: r =>
      if asciiLower b = 'm' ∧ asciiLower a = 'a' then (p.setAmPm false).map fun p' => (r, p')
      else if asciiLower b = 'm' ∧ asciiLower a = 'p' then (p.setAmPm true).map fun p' => (r, p')
      else .error .invalid
    | _ => .error .invalid
  | .nanosecond => parseNanosecond s p
  | .nanosecond3 => match s with | '.' :: r => setNanoFrom p (nanosecondFixed r 3) | _ => .ok (s, p)
  | .nanosecond6 => match s with | '.' :: r => setNanoFrom p (nanosecondFixed r 6) | _ => .ok (s, p)
  | .nanosecond9 => match s with | '.' :: r => setNanoFrom p (nanosecondFixed r 9) | _ => .ok (s, p)
  | .nano3NoDot => setNanoFrom p (nanosecondFixed s 3)
  | .nano6NoDot => setNanoFrom p (nanosecondFixed s 6)
  | .nano9NoDot => setNanoFrom p (nanosecondFixed s 9)
  | .timezoneName => .ok (s.dropWhile fun c => !isWs c, p)
  | .timezoneOffset | .timezoneOffsetColon | .timezoneOffsetDoubleColon | .timezoneOffsetTripleColon =>
    setOffsetFrom p (timezoneOffset (trimStart s) .lenient false false true)
  | .timezoneOffsetPermissive => setOffsetFrom p (timezoneOffset (trimStart s) .lenient true true true)
  | .rfc3339 => parseRfc3339Relaxed s p

def parseItem (it : Item) (s : Str) (p : Parsed) : PRes (Str × Parsed) :=
  match it with
  | .literal lit => (parseLiteral lit s).map fun s' => (s', p)
  | .space _ => .ok (trimStart s, p)
  | .numeric n _ => parseNumeric n s p
  | .fixed f => parseFixed f s p
  | .error => .error .badFormat

/-- `parse_internal` -/
def parseItems : List Item → Str → Parsed → PRes (Str × Parsed)
  | [], s, p => .ok (s, p)
  | it :: its, s, p =>
    match parseItem it s p with
    | .error e => .error e
    | .ok (s', p') => parseItems its s' p'

/-- `format::parse`: the whole input must be consumed -/
def parseAll (its : List Item) (s : Str) : PRes Parsed :=
  match parseItems its s {} with
  | .error e => .error e
  | .ok ([], p) => .ok p
  | .ok (_ :: _, _) => .error .tooLong

/-! ### parsed.rs: from fields to a date, a time, a date-time -/

/-- `NaiveDate::from_ymd_opt` as a day number -/
def fromYmd (y : Int) (m d : Nat) : Option Int := if validDate y m d then some (daysFromCivil y m d) else none
/-- `NaiveDate::from_yo_opt` -/
def fromYo (y : Int) (o : Nat) : Option Int :=
  if minYear ≤ y ∧ y ≤ maxYear ∧ 1 ≤ o ∧ o ≤ yearLen y then some (daysFromCivil y 1 1 + (o : Int) - 1) else none
def yearInRange (days : Int) : Bool := decide (minYear ≤ (civilFromDays days).1) && decide ((civilFromDays days).1 ≤ maxYear)

/-- the date `from_isoywd_opt(year, week, weekday)` denotes: Monday of ISO week 1 is the Monday on or before 4 January -/
def isoYwdDays (y : Int) (w wd : Nat) : Int :=
  let jan4 := daysFromCivil y 1 4
  jan4 - (weekday jan4 : Int) + ((w : Int) - 1) * 7 + (wd : Int)

/-- `NaiveDate::from_isoywd_opt(year, week, weekday)` (with wrapping `i32` arithmetic: where `isoOverflow` holds the
    wrapped year is far outside chrono's range, which gives the same `None` as the mathematical year) -/
def fromIsoYwd (y : Int) (w wd : Nat) : PRes Int :=
  if w = 0 ∨ w > isoWeeksInYear y then .error .outOfRange else
  let d := isoYwdDays y w wd
  if minYear ≤ (civilFromDays d).1 ∧ (civilFromDays d).1 ≤ maxYear then .ok d else .error .outOfRange

/-- `from_isoywd_opt(year, week, weekday)` evaluates `year - 1` with `year = i32::MIN` (the date lies in the previous
    calendar year) or `year + 1` with `year = i32::MAX` (it lies in the next one) -/
def isoOverflow (y : Int) (w wd : Nat) : Bool :=
  if w = 0 ∨ w > isoWeeksInYear y then false
  else decide ((y = i32Min ∧ (civilFromDays (isoYwdDays y w wd)).1 < y) ∨ (y = i32Max ∧ (civilFromDays (isoYwdDays y w wd)).1 > y))

/-- `resolve_week_date(year, week, weekday, week_start_day)`; `start`: 6 = Sunday (`%U`), 0 = Monday (`%W`) -/
def resolveWeekDate (y : Int) (w wd start : Nat) : PRes Int :=
  if w > 53 then .error .outOfRange else
  match fromYo y 1 with
  | none => .error .outOfRange
  | some jan1 =>
    let firstWeekStart : Int := 1 + (daysSince start (weekday jan1) : Nat)
    let ordinal : Int := firstWeekStart + ((w : Int) - 1) * 7 + (daysSince wd start : Nat)
    if ordinal ≤ 0 then .error .impossible
    else if ordinal.toNat ≤ yearLen y then .ok (jan1 + ordinal - 1) else .error .impossible

/-- `resolve_year(y, q, r)` of `to_naive_date` -/
def resolveYear (y q r : Option Int) : PRes (Option Int) :=
  match y, q, r with
  | y, none, none => .ok y
  | some y, q, r =>
    -- `r` is within 0..=99 whenever present (`set_year_mod_100`)
    if y < 0 then .error .impossible
    else if q.getD (y / 100) = y / 100 ∧ r.getD (y % 100) = y % 100 then .ok (some y) else .error .impossible
  | none, some q, some r =>
    if q < 0 then .error .impossible
    else if q * 100 + r > i32Max then .error .outOfRange else .ok (some (q * 100 + r))
  | none, none, some r => .ok (some (r + (if r < 70 then 2000 else 1900)))
  | none, some _, none => .error .notEnough

def optEqOr {α : Type} [DecidableEq α] (given : Option α) (actual : α) : Bool :=
  match given with
  | some g => decide (g = actual)
  | none => true

/-- `verify_ymd` -/
def verifyYmd (p : Parsed) (date : Int) : Bool :=
  let (y, m, d) := civilFromDays date
  optEqOr p.year y &&
  (if 0 ≤ y then optEqOr p.yearDiv100 (y / 100) && optEqOr p.yearMod100 (y % 100)
   else p.yearDiv100.isNone && p.yearMod100.isNone) &&
  optEqOr p.month m && optEqOr p.day d

/-- `verify_isoweekdate` (there is no `%` specifier for the ISO century, so that field is always empty) -/
def verifyIsoWeekDate (p : Parsed) (date : Int) : Bool :=
  let (iy, iw) := isoWeekOf date
  optEqOr p.isoYear iy &&
  (if 0 ≤ iy then optEqOr p.isoYearMod100 (iy % 100) else p.isoYearMod100.isNone) &&
  optEqOr p.isoWeek iw && optEqOr p.weekday (weekday date)

/-- `verify_ordinal` -/
def verifyOrdinal (p : Parsed) (date : Int) : Bool :=
  optEqOr p.ordinal (ordinalOf date) && optEqOr p.weekFromSun (weeksFrom date 6) && optEqOr p.weekFromMon (weeksFrom date 0)

def quarterOf (date : Int) : Nat := ((civilFromDays date).2.1 - 1) / 3 + 1

/-- which of the five constructions of `to_naive_date` applies (they are tried in this order) -/
inductive DateRoute where
  | ymd (y : Int) (m d : Nat) | yo (y : Int) (o : Nat) | weekSun (y : Int) (w wd : Nat) | weekMon (y : Int) (w wd : Nat)
  | iso (iy : Int) (iw wd : Nat) | notEnough
deriving DecidableEq, Repr

def Parsed.route (p : Parsed) (gy giy : Option Int) : DateRoute :=
  match gy, p.month, p.day, p.ordinal, p.weekFromSun, p.weekFromMon, p.weekday, giy, p.isoWeek with
  | some y, some m, some d, _, _, _, _, _, _ => .ymd y m d
  | some y, _, _, some o, _, _, _, _, _ => .yo y o
  | some y, _, _, _, some w, _, some wd, _, _ => .weekSun y w wd
  | some y, _, _, _, _, some w, some wd, _, _ => .weekMon y w wd
  | _, _, _, _, _, _, some wd, some iy, some iw => .iso iy iw wd
  | _, _, _, _, _, _, _, _, _ => .notEnough

/-- the candidate date of a route and whether the other fields agree with it -/
def Parsed.candidate (p : Parsed) : DateRoute → PRes (Bool × Int)
  | .ymd y m d =>
    match fromYmd y m d with
    | none => .error .outOfRange
    | some dt => .ok (verifyIsoWeekDate p dt && verifyOrdinal p dt, dt)
  | .yo y o =>
    match fromYo y o with
    | none => .error .outOfRange
    | some dt => .ok (verifyYmd p dt && verifyIsoWeekDate p dt && verifyOrdinal p dt, dt)
  | .weekSun y w wd =>
    (resolveWeekDate y w wd 6).map fun dt => (verifyYmd p dt && verifyIsoWeekDate p dt && verifyOrdinal p dt, dt)
  | .weekMon y w wd =>
    (resolveWeekDate y w wd 0).map fun dt => (verifyYmd p dt && verifyIsoWeekDate p dt && verifyOrdinal p dt, dt)
  | .iso iy iw wd => (fromIsoYwd iy iw wd).map fun dt => (verifyYmd p dt && verifyOrdinal p dt, dt)
  | .notEnough => .error .notEnough

/-- `Parsed::to_naive_date`: the day number -/
def Parsed.toNaiveDate (p : Parsed) : PRes Int :=
  match resolveYear p.year p.yearDiv100 p.yearMod100 with
  | .error e => .error e
  | .ok gy =>
  match resolveYear p.isoYear none p.isoYearMod100 with
  | .error e => .error e
  | .ok giy =>
    match p.candidate (p.route gy giy) with
    | .error e => .error e
    | .ok (verified, dt) =>
      if !verified then .error .impossible
      else if !(optEqOr p.quarter (quarterOf dt)) then .error .impossible
      else .ok dt

/-- `to_naive_date` reaches the overflowing subtraction/addition of `from_isoywd_opt` -/
def Parsed.dateOverflow (p : Parsed) : Bool :=
  match resolveYear p.year p.yearDiv100 p.yearMod100, resolveYear p.isoYear none p.isoYearMod100 with
  | .ok gy, .ok giy =>
    match p.route gy giy with
    | .iso iy iw wd => isoOverflow iy iw wd
    | _ => false
  | _, _ => false

/-- a `NaiveTime`: second of the day and nanosecond (≥ 10⁹ inside a leap second) -/
structure NTime where
  secs : Nat
  nano : Nat
deriving DecidableEq, Repr

/-- `Parsed::to_naive_time` -/
def Parsed.toNaiveTime (p : Parsed) : PRes NTime :=
  match p.hourDiv12, p.hourMod12, p.minute with
  | none, _, _ => .error .notEnough
  | some _, none, _ => .error .notEnough
  | some _, some _, none => .error .notEnough
  | some hd, some hm, some mi =>
    -- the setters keep these within range, so the OutOfRange arms of chrono's matches are never taken
    let sec := p.second.getD 0
    match p.nanosecond with
    | some n => if p.second.isSome then .ok ⟨(hd * 12 + hm) * 3600 + mi * 60 + min sec 59, (if sec = 60 then 1000000000 else 0) + n⟩
                else .error .notEnough
    | none => .ok ⟨(hd * 12 + hm) * 3600 + mi * 60 + min sec 59, if sec = 60 then 1000000000 else 0⟩

/-- a `NaiveDateTime` -/
structure NDT where
  days : Int
  time : NTime
deriving DecidableEq, Repr

/-- `and_utc().timestamp()` -/
def NDT.timestamp (t : NDT) : Int := t.days * 86400 + t.time.secs
/-- `and_utc().timestamp_millis()`: the nanosecond is truncated to milliseconds; a leap second counts 1000–1999 -/
def NDT.millis (t : NDT) : Int := t.timestamp * 1000 + (t.time.nano / 1000000 : Nat)

/-- the timestamp branch of `to_naive_datetime_with_offset`: date/time fields alone are insufficient (`rd`, `rt` are
    the failed attempts) but a timestamp is given; the fields year, ordinal, hour, minute, second are filled in from
    it (consistently with what is there) -/
def Parsed.fromTimestamp (p : Parsed) (given offset : Int) (rd : PRes Int) (rt : PRes NTime) : PRes Parsed :=
  let isErr (k : PErr) : Bool :=
    (match rd with | .error e => e == k | _ => false) || (match rt with | .error e => e == k | _ => false)
  if isErr .outOfRange then .error .outOfRange
  else if isErr .impossible then .error .impossible
  else
    let ts := given + offset
    if ts > i64Max ∨ ts < -(i64Max : Int) - 1 then .error .outOfRange else
    let days := ts / 86400
    let sod := (ts % 86400).toNat
    if !(yearInRange days) then .error .outOfRange else
    -- a parsed second of 60 with a timestamp that falls on second 0: the instant is one second earlier
    let adj : PRes (Int × Nat × Parsed) :=
      if p.second = some 60 then
        (if sod % 60 = 59 then .ok (days, sod, p)
         else if sod % 60 = 0 then
           (if sod = 0 then .ok (days - 1, 86399, p) else .ok (days, sod - 1, p))
         else .error .impossible)
      else (p.setSecond (sod % 60 : Nat)).map fun p' => (days, sod, p')
    match adj with
    | .error e => .error e
    | .ok (days, sod, p1) => do
      let p2 ← p1.setYear (civilFromDays days).1
      let p3 ← p2.setOrdinal (ordinalOf days)
      let p4 ← p3.setHour (sod / 3600 : Nat)
      p4.setMinute (sod / 60 % 60 : Nat)

/-- `Parsed::to_naive_datetime_with_offset(offset)` -/
def Parsed.toNaiveDatetime (p : Parsed) (offset : Int) : PRes NDT :=
  match p.toNaiveDate, p.toNaiveTime with
  | .ok date, .ok time =>
    let dt : NDT := ⟨date, time⟩
    match p.timestamp with
    | none => .ok dt
    | some given =>
      let ts := dt.timestamp - offset
      if given ≠ ts ∧ ¬ (time.nano ≥ 1000000000 ∧ given = ts + 1) then .error .impossible else .ok dt
  | rd, rt =>
    match p.timestamp with
    | none => (match rd with | .error e => .error e | .ok _ => match rt with | .error e => .error e | .ok _ => .error .notEnough)
    | some given =>
      match p.fromTimestamp given offset rd rt with
      | .error e => .error e
      | .ok p5 => do
        let date ← p5.toNaiveDate
        let time ← p5.toNaiveTime
        pure ⟨date, time⟩

/-- `to_naive_datetime_with_offset` reaches an overflowing `from_isoywd_opt` (first on the parsed fields; the second
    `to_naive_date`, on fields completed from a timestamp, always has a year and an ordinal and never gets there) -/
def Parsed.datetimeOverflow (p : Parsed) (offset : Int) : Bool :=
  p.dateOverflow ||
  (match p.toNaiveDate, p.toNaiveTime with
   | .ok _, .ok _ => false
   | rd, rt => match p.timestamp with
     | none => false
     | some given => match p.fromTimestamp given offset rd rt with
       | .ok p5 => p5.dateOverflow
       | .error _ => false)

/-- `FixedOffset::east_opt` -/
def validOffset (off : Int) : Bool := decide (-86400 < off) && decide (off < 86400)

/-- `local.checked_sub_offset(off)`: the UTC date-time of a local date-time; `none` outside `NaiveDate`'s range -/
def subOffset (t : NDT) (off : Int) : Option NDT :=
  let secs : Int := (t.time.secs : Int) - off
  let days := t.days + secs / 86400
  if yearInRange days then some ⟨days, ⟨(secs % 86400).toNat, t.time.nano⟩⟩ else none

/-- `Parsed::to_datetime`: the UTC date-time (the offset itself is not needed by time.rs) -/
def Parsed.toDatetimeUtc (p : Parsed) : PRes NDT :=
  match (match p.offset, p.timestamp with
         | some off, _ => some off
         | none, some _ => some 0
         | none, none => none) with
  | none => .error .notEnough
  | some off =>
    match p.toNaiveDatetime off with
    | .error e => .error e
    | .ok dt =>
      if !(validOffset off) then .error .outOfRange else
      match subOffset dt off with
      | none => .error .impossible
      | some u => .ok u

/-! ### RFC 2822 and RFC 3339 -/

/-- `parse_rfc2822`, part 1: `[ day-of-week "," ]` -/
def rfcDow (s : Str) (p : Parsed) : PRes (Str × Parsed) :=
  match shortWeekday s with
  | .ok (s', wd) =>
    (match s' with
     | ',' :: r => (p.setWeekday wd).map fun p' => (r, p')
     | _ => .error .invalid)
  | .error _ => .ok (s, p)

/-- part 2: `day month year` with the two- and three-digit year rules -/
def rfcDate (s : Str) (p : Parsed) : PRes (Str × Parsed) := do
  let (s, d) ← number s 1 2
  let p ← p.setDay d
  let s ← scanSpace s
  let (s, m0) ← shortMonth0 s
  let p ← p.setMonth (m0 + 1 : Nat)
  let s ← scanSpace s
  let (s', y) ← number s 2 noLimit
  let ylen := s.length - s'.length
  let y := if ylen = 2 then (if y ≤ 49 then y + 2000 else y + 1900) else if ylen = 3 then y + 1900 else y
  let p ← p.setYear y
  pure (s', p)

/-- part 3: `hour ":" minute [ ":" second ]` -/
def rfcTime (s : Str) (p : Parsed) : PRes (Str × Parsed) := do
  let (s, h) ← number s 2 2
  let p ← p.setHour h
  let s ← scanChar (trimStart s) ':'
  let (s, mi) ← number (trimStart s) 2 2
  let p ← p.setMinute mi
  match scanChar (trimStart s) ':' with
  | .ok s_ =>
    (match number s_ 2 2 with
     | .error e => .error e
     | .ok (s'', sec) => (p.setSecond sec).map fun p' => (s'', p'))
  | .error _ => .ok (s, p)

/-- part 4: the zone and trailing comments -/
def rfcZone (s : Str) (p : Parsed) : PRes (Str × Parsed) := do
  let (s, off) ← timezoneOffset2822 s
  let p ← p.setOffset off
  pure (skipComments s.length s, p)

/-- `parse_rfc2822`.  Accepted (S = any run of Unicode white space):
    `*S [ day-name "," ] *S 1*2DIGIT 1*S month-name 1*S 2*DIGIT 1*S 2DIGIT *S ":" *S 2DIGIT [ *S ":" 2DIGIT ] 1*S zone *comment`
    * day and month names: three ASCII letters in any case; a given day name must be the date's weekday
      (`Impossible` otherwise), checked in `Parsed.toNaiveDate`;
    * year: 2 digits ↦ 2000+ (00–49) / 1900+ (50–99); 3 digits ↦ 1900+; 4 or more digits literally (up to chrono's
      262142; `i32` overflow ↦ `OutOfRange`);
    * no white space is allowed between the second `:` and the seconds; seconds may be `60` (leap second);
    * zone: `±hhmm` (hh 00–99, mm 00–59; |offset| ≥ 24 h ↦ `OutOfRange`), or a name in any case: `UT GMT Z` = +0000,
      `EDT` −4, `EST CDT` −5, `CST MDT` −6, `MST PDT` −7, `PST` −8, any single letter except `J` = +0000, any other
      alphabetic word ↦ `Invalid`;
    * comments `( … )` with nesting and `\`-escapes may follow, each preceded by optional white space; trailing
      white space after the zone or after the last comment is `TooLong`. -/
def parseRfc2822 (s : Str) (p : Parsed) : PRes (Str × Parsed) := do
  let (s, p) ← rfcDow (trimStart s) p
  let (s, p) ← rfcDate (trimStart s) p
  let s ← scanSpace s
  let (s, p) ← rfcTime s p
  let s ← scanSpace s
  rfcZone s p

/-- `DateTime::parse_from_rfc2822`: the UTC date-time -/
def rfc2822Utc (s : Str) : PRes NDT :=
  match parseRfc2822 s {} with
  | .error e => .error e
  | .ok ([], p) => p.toDatetimeUtc
  | .ok (_ :: _, _) => .error .tooLong

def charAt (s : Str) (i : Nat) : Char := s.getD i (Char.ofNat 0)
/-- `digit(fixed, i)` -/
def digitAt (s : Str) (i : Nat) : PRes Nat :=
  match digit? (charAt s i) with
  | some d => .ok d
  | none => .error .invalid
def expectAt (s : Str) (i : Nat) (ok : Char → Bool) : PRes Unit :=
  if ok (charAt s i) then .ok () else .error .invalid

/-- `if bytes.get(19) == Some(&b'.') { scan::nanosecond(&s[20..]) } else { 0 }` -/
def fracPart (tail : Str) : PRes (Str × Nat) :=
  match tail with
  | '.' :: r => nanosecond r
  | r => .ok (r, 0)

/-- the part of `parse_rfc3339` after the 19 fixed positions: fraction, range of the time, offset, end of input,
    conversion to UTC -/
def rfc3339Tail (date : Int) (h mi sec : Nat) (tail : Str) : PRes NDT := do
  let (rest, frac) ← fracPart tail
  -- `NaiveTime::from_hms_nano_opt`; a second of 60 is 59 plus 10⁹ ns
  if h ≥ 24 ∨ mi ≥ 60 ∨ sec > 60 then .error .outOfRange else
  let time : NTime := ⟨h * 3600 + mi * 60 + min sec 59, (if sec = 60 then 1000000000 else 0) + frac⟩
  let (rest, off) ← timezoneOffset rest .strict true false true
  if rest ≠ [] then .error .tooLong else
  if !(validOffset off) then .error .outOfRange else
  match subOffset ⟨date, time⟩ off with
  | some u => .ok u
  | none => .error .impossible     -- unreachable: years 0–9999 are far from the limits (chrono: `unreachable!()`)

/-- `parse_rfc3339` (strict): `YYYY-MM-DD(T|t| )HH:MM:SS[.fraction](Z|z|±HH:MM)`, then the UTC date-time.
    Exactly 4-2-2 and 2-2-2 digits; the separator is `T`, `t` or one space; the fraction is `.` and one or more
    digits (digits after the ninth are skipped); seconds may be `60`; the offset sign may be `+`, `-` or U+2212, its
    colon is mandatory, hh 00–99 and mm 00–59 are scanned but |offset| ≥ 24 h is `OutOfRange`; nothing may follow.
    Positions are character positions: all 19 leading positions are checked to hold ASCII characters in order, so
    byte and character positions coincide up to the first failing check. -/
def rfc3339Utc (s : Str) : PRes NDT :=
  if utf8Len s < 19 then .error .tooShort else do
  let y := (← digitAt s 0) * 1000 + (← digitAt s 1) * 100 + (← digitAt s 2) * 10 + (← digitAt s 3)
  expectAt s 4 (· == '-')
  let m := (← digitAt s 5) * 10 + (← digitAt s 6)
  expectAt s 7 (· == '-')
  let d := (← digitAt s 8) * 10 + (← digitAt s 9)
  let date ← (match fromYmd y m d with | some x => .ok x | none => .error .outOfRange : PRes Int)
  expectAt s 10 (fun c => c == 't' || c == 'T' || c == ' ')
  let h := (← digitAt s 11) * 10 + (← digitAt s 12)
  expectAt s 13 (· == ':')
  let mi := (← digitAt s 14) * 10 + (← digitAt s 15)
  expectAt s 16 (· == ':')
  let sec := (← digitAt s 17) * 10 + (← digitAt s 18)
  rfc3339Tail date h mi sec (s.drop 19)

end Time
end Slac
