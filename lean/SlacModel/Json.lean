/-
  SlacModel.Json — the serde mapping of src/ast.rs (`#[serde(tag = "type", rename_all = "camelCase")]`),
  src/operator.rs (`rename_all = "camelCase"`) and the hand-written Serialize/Deserialize of src/value.rs
  (untagged: Boolean ↦ bool, String ↦ string, Number ↦ number — or `null` when not finite, which is what
  serde_json does with a non-finite f64 — Array ↦ array; the visitor accepts bool, str, u64/i64/f64, seq).
  `Json` is serde_json's data model; the text layer (printing/parsing) is serde_json's business.
-/
import SlacModel.Ast
set_option autoImplicit false
namespace Slac

inductive Json (N : Type) where
  | null | bool (b : Bool) | num (x : N) | int (i : Int) | str (s : Str)
  | arr (xs : List (Json N)) | obj (fields : List (Str × Json N))

/-- what the JSON layer needs from numbers: finiteness (serialisation) and integer conversion (`v as f64`) -/
structure JsonNum (N : Type) where
  isFinite : N → Bool
  ofInt : Int → N

namespace Json
variable {N : Type}

def opName : Op → Str
  | .plus => ['p','l','u','s'] | .minus => ['m','i','n','u','s'] | .multiply => ['m','u','l','t','i','p','l','y'] | .divide => ['d','i','v','i','d','e']
  | .greater => ['g','r','e','a','t','e','r'] | .greaterEqual => ['g','r','e','a','t','e','r','E','q','u','a','l'] | .less => ['l','e','s','s']
  | .lessEqual => ['l','e','s','s','E','q','u','a','l'] | .equal => ['e','q','u','a','l'] | .notEqual => ['n','o','t','E','q','u','a','l']
  | .and => ['a','n','d'] | .or => ['o','r'] | .xor => ['x','o','r'] | .not => ['n','o','t']
  | .div => ['d','i','v'] | .mod => ['m','o','d'] | .ternaryCondition => ['t','e','r','n','a','r','y','C','o','n','d','i','t','i','o','n']

def allOps : List Op := [.plus, .minus, .multiply, .divide, .greater, .greaterEqual, .less, .lessEqual, .equal,
  .notEqual, .and, .or, .xor, .not, .div, .mod, .ternaryCondition]
def opOfName (s : Str) : Option Op := allOps.find? (fun o => opName o == s)

mutual
def ofValue (jn : JsonNum N) : Value N → Json N
  | .bool b => .bool b
  | .str s => .str s
  | .num x => if jn.isFinite x then .num x else .null
  | .arr vs => .arr (ofValues jn vs)
def ofValues (jn : JsonNum N) : List (Value N) → List (Json N)
  | [] => []
  | v :: vs => ofValue jn v :: ofValues jn vs
end

mutual
def toValue (jn : JsonNum N) : Json N → Option (Value N)
  | .bool b => some (.bool b)
  | .str s => some (.str s)
  | .num x => some (.num x)
  | .int i => some (.num (jn.ofInt i))
  | .arr xs => (toValues jn xs).map .arr
  | .null => none
  | .obj _ => none
def toValues (jn : JsonNum N) : List (Json N) → Option (List (Value N))
  | [] => some []
  | j :: js => match toValue jn j with
    | some v => (toValues jn js).map (v :: ·)
    | none => none
end

mutual
def ofExpr (jn : JsonNum N) : Expr N → Json N
  | .unary r op => .obj [(['t','y','p','e'], .str ['u','n','a','r','y']), (['r','i','g','h','t'], ofExpr jn r), (['o','p','e','r','a','t','o','r'], .str (opName op))]
  | .binary l r op => .obj [(['t','y','p','e'], .str ['b','i','n','a','r','y']), (['l','e','f','t'], ofExpr jn l), (['r','i','g','h','t'], ofExpr jn r), (['o','p','e','r','a','t','o','r'], .str (opName op))]
  | .ternary l m r op => .obj [(['t','y','p','e'], .str ['t','e','r','n','a','r','y']), (['l','e','f','t'], ofExpr jn l), (['m','i','d','d','l','e'], ofExpr jn m), (['r','i','g','h','t'], ofExpr jn r),
                               (['o','p','e','r','a','t','o','r'], .str (opName op))]
  | .array es => .obj [(['t','y','p','e'], .str ['a','r','r','a','y']), (['e','x','p','r','e','s','s','i','o','n','s'], .arr (ofExprs jn es))]
  | .lit v => .obj [(['t','y','p','e'], .str ['l','i','t','e','r','a','l']), (['v','a','l','u','e'], ofValue jn v)]
  | .var n => .obj [(['t','y','p','e'], .str ['v','a','r','i','a','b','l','e']), (['n','a','m','e'], .str n)]
  | .call n ps => .obj [(['t','y','p','e'], .str ['c','a','l','l']), (['n','a','m','e'], .str n), (['p','a','r','a','m','s'], .arr (ofExprs jn ps))]
def ofExprs (jn : JsonNum N) : List (Expr N) → List (Json N)
  | [] => []
  | e :: es => ofExpr jn e :: ofExprs jn es
end

def field (key : Str) : List (Str × Json N) → Option (Json N)
  | [] => none
  | (k', v) :: r => if k' = key then some v else field key r

def asStr : Json N → Option Str | .str s => some s | _ => none
def asArr : Json N → Option (List (Json N)) | .arr xs => some xs | _ => none

/-- the readings of a JSON value as an expression / as a list of expressions, computed bottom-up
    (structural recursion; serde's internally-tagged enum deserialisation is likewise content-buffered) -/
structure Rd (N : Type) where
  expr : Option (Expr N)
  exprs : Option (List (Expr N))

def fieldRd (key : Str) : List (Str × Rd N) → Option (Rd N)
  | [] => none
  | (k', v) :: r => if k' = key then some v else fieldRd key r

def subExpr (key : Str) (rs : List (Str × Rd N)) : Option (Expr N) := (fieldRd key rs).bind (·.expr)
def subExprs (key : Str) (rs : List (Str × Rd N)) : Option (List (Expr N)) := (fieldRd key rs).bind (·.exprs)
def opField (fs : List (Str × Json N)) : Option Op := ((field ['o','p','e','r','a','t','o','r'] fs).bind asStr).bind opOfName

/-- one object: the tag selects the variant, fields are looked up by key (order irrelevant, unknown fields ignored) -/
def decodeObj (jn : JsonNum N) (fs : List (Str × Json N)) (rs : List (Str × Rd N)) : Option (Expr N) :=
  match (field ['t','y','p','e'] fs).bind asStr with
  | none => none
  | some tag =>
    if tag = ['u','n','a','r','y'] then do
      let r ← subExpr ['r','i','g','h','t'] rs; let op ← opField fs; pure (.unary r op)
    else if tag = ['b','i','n','a','r','y'] then do
      let l ← subExpr ['l','e','f','t'] rs; let r ← subExpr ['r','i','g','h','t'] rs; let op ← opField fs; pure (.binary l r op)
    else if tag = ['t','e','r','n','a','r','y'] then do
      let l ← subExpr ['l','e','f','t'] rs; let m ← subExpr ['m','i','d','d','l','e'] rs; let r ← subExpr ['r','i','g','h','t'] rs
      let op ← opField fs; pure (.ternary l m r op)
    else if tag = ['a','r','r','a','y'] then do
      let es ← subExprs ['e','x','p','r','e','s','s','i','o','n','s'] rs; pure (.array es)
    else if tag = ['l','i','t','e','r','a','l'] then do
      let v ← (field ['v','a','l','u','e'] fs).bind (toValue jn); pure (.lit v)
    else if tag = ['v','a','r','i','a','b','l','e'] then do
      let n ← (field ['n','a','m','e'] fs).bind asStr; pure (.var n)
    else if tag = ['c','a','l','l'] then do
      let n ← (field ['n','a','m','e'] fs).bind asStr; let ps ← subExprs ['p','a','r','a','m','s'] rs; pure (.call n ps)
    else none

mutual
def read (jn : JsonNum N) : Json N → Rd N
  | .arr xs => ⟨none, readList jn xs⟩
  | .obj fs => ⟨decodeObj jn fs (readFields jn fs), none⟩
  | _ => ⟨none, none⟩
def readList (jn : JsonNum N) : List (Json N) → Option (List (Expr N))
  | [] => some []
  | j :: js => match (read jn j).expr with
    | some e => (readList jn js).map (e :: ·)
    | none => none
def readFields (jn : JsonNum N) : List (Str × Json N) → List (Str × Rd N)
  | [] => []
  | (key, j) :: fs => (key, read jn j) :: readFields jn fs
end

/-- deserialisation: total on arbitrary JSON -/
def toExpr (jn : JsonNum N) (j : Json N) : Option (Expr N) := (read jn j).expr

end Json
end Slac
