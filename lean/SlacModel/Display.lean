/-
  SlacModel.Display — Rust's `Display` for f64: shortest decimal that parses back to x, the closest such,
  an exact tie between two candidates going up in magnitude; never exponent notation.
-/
import SlacModel.Num
set_option autoImplicit false
namespace Slac
namespace F64

def decLen (n : Nat) : Nat := (Nat.toDigits 10 n).length
def ratCmp (a b c d : Nat) : Ordering := compare (a * d) (c * b)

def displaySearch (ax : Float) (num den : Nat) (k : Int) (n : Nat) : Nat → Nat × Int
  | 0 => (0, 0)
  | fuel + 1 =>
    let p : Int := k - n
    let vn : Nat := if p ≥ 0 then num else num * 10 ^ (-p).toNat
    let vd : Nat := if p ≥ 0 then den * 10 ^ p.toNat else den
    let lo := vn / vd
    let hi := lo + 1
    let back (c : Nat) : Bool :=
      let y := if p ≥ 0 then Float.ofScientific c false p.toNat else Float.ofScientific c true (-p).toNat
      y == ax
    let okLo := lo > 0 && back lo
    let okHi := back hi
    let closerLo := 2 * vn < (lo + hi) * vd   -- exact tie goes up, as Rust does
    if okLo && okHi then (if closerLo then (lo, p) else (hi, p))
    else if okLo then (lo, p)
    else if okHi then (hi, p)
    else displaySearch ax num den k (n + 1) fuel

def stripZeros (c : Nat) (p : Int) : Nat → Nat × Int
  | 0 => (c, p)
  | fuel + 1 => if c % 10 == 0 && c != 0 then stripZeros (c / 10) (p + 1) fuel else (c, p)

def display (x : Float) : Str :=
  if isNaN x then ['N','a','N']
  else if isInf x then (if signBit x then ['-','i','n','f'] else ['i','n','f'])
  else if isZero x then (if signBit x then ['-','0'] else ['0'])
  else
    let neg := signBit x
    let ax := if neg then -x else x
    let (m, e) := decode ax
    let num : Nat := if e ≥ 0 then m <<< e.toNat else m
    let den : Nat := if e ≥ 0 then 1 else 1 <<< (-e).toNat
    let k0 : Int := (decLen num : Int) - (decLen den : Int)
    let k : Int :=
      let pow (i : Int) : Nat × Nat := if i ≥ 0 then (10 ^ i.toNat, 1) else (1, 10 ^ (-i).toNat)
      let ge (i : Int) : Bool := let (pn, pd) := pow i; ratCmp num den pn pd != .lt
      if ge (k0 + 1) then k0 + 2 else if ge k0 then k0 + 1 else if ge (k0 - 1) then k0 else k0 - 1
    let (c, p) := displaySearch ax num den k 1 18
    let (c, p) := stripZeros c p 20
    let ds := Nat.toDigits 10 c
    let body : List Char :=
      if p ≥ 0 then ds ++ List.replicate p.toNat '0'
      else
        let q := (-p).toNat
        if ds.length ≤ q then '0' :: '.' :: (List.replicate (q - ds.length) '0' ++ ds)
        else ds.take (ds.length - q) ++ '.' :: ds.drop (ds.length - q)
    if neg then '-' :: body else body

end F64
end Slac
