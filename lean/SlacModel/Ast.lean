/-
  SlacModel.Ast — src/ast.rs `Expression`, the abstract `Environment` (src/environment.rs trait) and the
  events an execution performs on it.
-/
import SlacModel.Value
set_option autoImplicit false
namespace Slac

inductive Expr (N : Type) where
  | unary (r : Expr N) (op : Op)
  | binary (l r : Expr N) (op : Op)
  | ternary (l m r : Expr N) (op : Op)
  | array (es : List (Expr N))
  | lit (v : Value N)
  | var (n : Str)
  | call (n : Str) (ps : List (Expr N))

/-- the `Environment` trait: four observations.  Functions are Lean functions, hence history independent. -/
structure Env (N : Type) where
  var : Str → Option (Value N)
  call : Str → List (Value N) → Except NativeError (Value N)
  varExists : Str → Bool
  fnExists : Str → Nat → FnRes

inductive Event (N : Type) | lookup (n : Str) | call (n : Str) (args : List (Value N))

end Slac
