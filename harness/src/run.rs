//! Executors: one protocol line in, one answer line out, computed by the real crate.
use crate::codec::*;
use crate::env::*;
use slac::environment::Environment;
use slac::{execute, StaticEnvironment, Value as V};
use std::cmp::Ordering;

fn ord(o: Ordering) -> &'static str { match o { Ordering::Less => "-1", Ordering::Equal => "0", Ordering::Greater => "1" } }
fn tf(b: bool) -> &'static str { if b { "T" } else { "F" } }

pub fn run_line(line: &str) -> String {
    let mut t = Toks::new(line);
    let Some(stream) = t.next() else { return "bad".into() };
    let r = match stream {
        "cmp" => run_cmp(&mut t),
        "eval" => run_eval(&mut t),
        "env" => run_env(&mut t),
        "evalcs" => (|| { let d = EnvDesc::parse(&mut t)?; let e = t.expr()?; let env = CsEnv::new(&d)?; let r = execute(&env, &e); Some(format!("{} ; {}", show_res(&r), env.trace())) })(),
        "num" => crate::numrun::run_num(&mut t),
        "call" => crate::call::run_call(&mut t),
        "rep" => crate::call::run_rep(&mut t),
        "nd" => crate::call::run_nd(&mut t),
        "tcmp" => (|| { let a = t.expr()?; let b = t.expr()?; Some(format!("eq {} ord {:?} clone-eq {}", a == b, a.partial_cmp(&b), a.clone() == a)) })(),
        "re" => crate::re::run_re(&mut t),
        "relaw" => crate::re::run_relaw(&mut t),
        "ord" => crate::laws::run_ord(&mut t),
        "script" => crate::script::run_script(&mut t),
        "tmrange" => crate::timerange::run_tmrange(&mut t),
        "scanrange" => crate::lang::run_scanrange(&mut t),
        "mathlaw" => crate::laws::run_mathlaw(&mut t),
        "poslaw" => crate::laws::run_poslaw(&mut t),
        "sortlaw" => crate::laws::run_sortlaw(&mut t),
        "scan" => crate::lang::run_scan(&mut t),
        "parse" => crate::lang::run_parse(&mut t),
        "compile" => crate::lang::run_compile(&mut t),
        "rt" => crate::lang::run_rt(&mut t),
        "rr" => crate::lang::run_rr(&mut t),
        "lay" => crate::lang::run_lay(&mut t),
        "opt" => crate::tree::run_opt(&mut t),
        "chkvf" => crate::tree::run_chkvf(&mut t),
        "chkbool" => crate::tree::run_chkbool(&mut t),
        "json" => crate::tree::run_json(&mut t),
        "jsonin" => crate::tree::run_jsonin(&mut t),
        "slowpure" => run_slowpure(&mut t),
        _ => None,
    };
    r.unwrap_or_else(|| "bad".into())
}

/// `cmp a b` → cmp, ==, is_empty a, as_bool a, and the six operators through PartialOrd/PartialEq
fn run_cmp(t: &mut Toks) -> Option<String> {
    let a = t.value()?; let b = t.value()?;
    Some(format!("{} {} {} {} {}{}{}{}{}", ord(a.cmp(&b)), tf(a == b), tf(a.is_empty()), tf(a.as_bool()),
        tf(a < b), tf(a <= b), tf(a > b), tf(a >= b), tf(a != b)))
}

fn run_eval(t: &mut Toks) -> Option<String> {
    let d = EnvDesc::parse(t)?; let e = t.expr()?;
    let env = RecEnv::new(d.build()?);
    let r = execute(&env, &e);
    let ans = format!("{} ; {}{}", show_res(&r), env.trace(), env.native_law(&d));
    Some(format!("{}{}", ans, history_law(&d, &e)))
}

/// The binding in force is the LATEST one, under every spelling: execute once (anything the environment remembers is now warm), rebind /
/// remove every variable under a different letter case while the caller still HOLDS the values it looked up, execute again, and compare with
/// a fresh environment that only ever saw the final bindings.  "" when they agree.
fn history_law(d: &EnvDesc, e: &slac::Expression) -> String {
    if d.vars.is_empty() { return String::new(); }
    let Some(mut env) = d.build() else { return String::new() };
    let Some(mut fresh) = d.build() else { return String::new() };
    let _ = execute(&env, e);
    let held: Vec<_> = d.vars.iter().filter_map(|(n, _)| env.variable(n)).collect();
    let swap = |n: &str| -> String { n.chars().map(|c| if c.is_lowercase() { c.to_uppercase().next().unwrap_or(c) } else { c.to_lowercase().next().unwrap_or(c) }).collect() };
    for (i, (n, v)) in d.vars.iter().enumerate() {
        let other = if swap(n).to_lowercase() == n.to_lowercase() { swap(n) } else { n.clone() };
        for target in [&mut env, &mut fresh] {
            match i % 3 { 0 => { target.remove_variable(&other); } 1 => { target.add_variable(&other, V::Array(vec![v.clone(), V::Number(i as f64)])); } _ => { target.add_variable(&other, V::String(format!("{}!", show(v)))); } }
        }
    }
    let a = show_res(&execute(&env, e)); let b = show_res(&execute(&fresh, e));
    drop(held);
    if a == b { String::new() } else { format!(" ; HISTORY after rebinding: {} but an environment that was never read before the same rebinding: {}", a, b) }
}

/// `env <ops>`: one answer per op, joined by " , "
fn run_env(t: &mut Toks) -> Option<String> {
    let mut env = StaticEnvironment::default();
    let mut out: Vec<String> = vec![];
    let mut held: Vec<std::rc::Rc<V>> = vec![];          // a host may keep the values it looked up or removed
    while let Some(op) = t.next() {
        let ans = match op {
            "av" => { let n = t.name()?; let v = t.value()?; env.add_variable(&n, v); "-".to_string() }
            "rv" => { let n = t.name()?; match env.remove_variable(&n) { Some(v) => { held.push(v.clone()); format!("some {}", show(&v)) } None => "none".into() } }
            "cv" => { env.clear_variables(); "-".into() }
            "af" => { let d = parse_fn(t)?; env.add_function(mk_fn(&d)?); "-".into() }
            "afs" => { let k = t.usize()?; let mut fs = vec![]; for _ in 0..k { let d = parse_fn(t)?; fs.push(mk_fn(&d)?); } env.add_functions(fs); "-".into() }
            // extend_environment; the k function descriptions that follow tell the MODEL what the standard library registers (ignored here)
            "ext" => { let k = t.usize()?; for _ in 0..k { parse_fn(t)?; } slac::stdlib::extend_environment(&mut env); "-".to_string() }
            "rf" => { let n = t.name()?; match env.remove_function(&n) { Some(f) => format!("some {}", show_fn(&f)), None => "none".into() } }
            "gv" => { let n = t.name()?; match env.variable(&n) { Some(v) => { held.push(v.clone()); format!("some {}", show(&v)) } None => "none".into() } }
            "ve" => { let n = t.name()?; tf(env.variable_exists(&n)).to_string() }
            "cl" => { let n = t.name()?; let k = t.usize()?; let mut args = vec![]; for _ in 0..k { args.push(t.value()?); } show_nres(&env.call(&n, &args)) }
            "fe" => { let n = t.name()?; let k = t.usize()?; show_fnres(&env.function_exists(&n, k)) }
            "lf" => { let mut l: Vec<String> = env.list_functions().iter().map(|f| show_fn(f)).collect(); l.sort(); format!("[{}]", l.join(" ")) }
            _ => return None,
        };
        out.push(ans);
    }
    drop(held);
    Some(out.join(" , "))
}
pub fn show_fnres(r: &slac::environment::FunctionResult) -> String {
    use slac::environment::FunctionResult as F;
    match r { F::Exists { pure } => format!("Exists {}", if *pure { 1 } else { 0 }), F::NotFound => "NotFound".into(), F::WrongArity { min, max } => format!("WrongArity {} {}", min, max) }
}
fn parse_fn(t: &mut Toks) -> Option<FnDesc> {
    let name = t.name()?; let kind = t.next()?.chars().next()?; let req = t.usize()?; let opt = t.usize()?;
    let pure = t.next()? == "1"; let beh = t.next()?.to_string();
    Some(FnDesc { name, kind, req, opt, pure, beh })
}
fn mk_fn(f: &FnDesc) -> Option<slac::function::Function> {
    use slac::function::{Arity, Function};
    let arity = match f.kind { 'P' => Arity::Polyadic { required: f.req, optional: f.opt }, 'V' => Arity::Variadic, _ => Arity::None };
    // the registered spelling, arity and behaviour identify the object: behaviour is observable through `call`
    // the declaration may or may not carry a parameter list (`Function::new` leaves `params` empty for a bare name): decided by the description
    let bare = (f.name.len() + f.req + 2 * f.opt + f.beh.len()) % 2 == 0;
    Some(Function { name: f.name.clone(), func: behaviour(&f.beh)?, arity, params: if bare { String::new() } else { format!("({})", f.beh) }, pure: f.pure })
}
/// a function object is identified by its registered spelling, arity, purity and behaviour tag
fn show_fn(f: &slac::function::Function) -> String {
    use slac::function::Arity;
    let a = match f.arity { Arity::Polyadic { required, optional } => format!("P{}+{}", required, optional), Arity::Variadic => "V".into(), Arity::None => "N".into() };
    // the function object itself (its code address) says which test behaviour it is - not its documentation string
    let beh = match BEHAVIOURS.iter().find(|b| behaviour(b).map(|g| g as usize) == Some(f.func as usize)) { Some(b) => b.to_string(), None => format!("b:{}", f.name) };
    format!("{}:{}:{}:{}", hex(&f.name), a, if f.pure { 1 } else { 0 }, beh)
}

#[allow(dead_code)]
pub fn unused(_: &V) {}

/// `slowpure <family>`: ONE pure builtin on inputs that grow (doubling) until a single call needs about two seconds of wall-clock time (or the size cap
/// is reached); every answer is compared with what the arguments determine.  A result that depends on how long the call takes (a time budget, a
/// watchdog, a "give up after …" guard) shows here and nowhere among calls that return in microseconds.  Answer: `same` or `differs …`.
fn run_slowpure(t: &mut Toks) -> Option<String> {
    use slac::stdlib::{common, regex, string};
    let fam = t.next()?.to_string();
    let s = |x: &str| V::String(x.to_string());
    let mut n: usize = 1 << 18; let cap: usize = 1 << 24;
    loop {
        let hay = "ab1".repeat(n);
        let t0 = std::time::Instant::now();
        let verdict: Result<(), String> = match fam.as_str() {
            "re_find" => match regex::find(&[s(&hay), s("[a-z]+\\d")]) { Ok(V::Array(a)) if a.len() == n && a.first() == Some(&s("ab1")) && a.last() == Some(&s("ab1")) => Ok(()), Ok(V::Array(a)) => Err(format!("{} matches", a.len())), o => Err(format!("{:?}", o.map(|_| ()))) },
            "re_replace" => match regex::replace(&[s(&hay), s("[a-z]+\\d"), s("x")]) { Ok(V::String(r)) if r.len() == n && r.bytes().all(|b| b == b'x') => Ok(()), Ok(V::String(r)) => Err(format!("len {}", r.len())), o => Err(format!("{:?}", o.map(|_| ()))) },
            "re_is_match" => match regex::is_match(&[s(&hay), s("^([a-z]+\\d)*$")]) { Ok(V::Boolean(true)) => Ok(()), o => Err(format!("{:?}", o)) },
            "contains" => match common::contains(&[s(&hay), s("b1b")]) { Ok(V::Boolean(false)) => Ok(()), o => Err(format!("{:?}", o)) },
            "replace" => match common::replace(&[s(&hay), s("b1"), s("")]) { Ok(V::String(r)) if r.len() == n => Ok(()), Ok(V::String(r)) => Err(format!("len {}", r.len())), o => Err(format!("{:?}", o.map(|_| ()))) },
            "split" => match string::split(&[s(&hay), s("1")]) { Ok(V::Array(a)) if a.len() == n + 1 => Ok(()), Ok(V::Array(a)) => Err(format!("{} parts", a.len())), o => Err(format!("{:?}", o.map(|_| ()))) },
            "sort" => { let v: Vec<V> = (0..n).rev().map(|i| V::Number(i as f64)).collect(); match common::sort(&[V::Array(v)]) { Ok(V::Array(a)) if a.len() == n && a.windows(2).all(|w| w[0] <= w[1]) && a[0] == V::Number(0.0) => Ok(()), o => Err(format!("{:?}", o.map(|_| ()))) } }
            "unique" => { let m = n >> 6; let v: Vec<V> = (0..m).map(|i| V::Number((i % 1000) as f64)).collect(); match common::unique(&[V::Array(v)]) { Ok(V::Array(a)) if a.len() == 1000.min(m) => Ok(()), Ok(V::Array(a)) => Err(format!("{} distinct", a.len())), o => Err(format!("{:?}", o.map(|_| ()))) } }
            _ => return None,
        };
        let dt = t0.elapsed().as_secs_f64();
        if let Err(why) = verdict { return Some(format!("differs {} size {} after {:.1} s: {}", fam, n, dt, why)); }
        if dt >= 1.6 || n >= cap { return Some("same".into()); }
        n *= 2;
    }
}
