//! Regenerated tables (DESIGN 5.3): what the running crate registers, and how each builtin dispatches on argument
//! kinds — emitted as Lean source so that the table theorems are re-checked against what the code says NOW.
use slac::environment::{Environment, FunctionResult};
use slac::function::Arity;
use slac::stdlib::{builtins, extend_environment, NativeError};
use slac::{StaticEnvironment, Value as V};

fn chars(s: &str) -> String { format!("[{}]", s.chars().map(|c| if c == '\'' { "'\\''".to_string() } else if c == '\\' { "'\\\\'".to_string() } else { format!("'{}'", c) }).collect::<Vec<_>>().join(",")) }

/// kind mask documented for each parameter position: bit 0 Boolean, 1 String, 2 Number, 3 Array (15 = Any)
pub fn doc_masks(params: &str) -> (Vec<u32>, bool) {
    let inner = params.trim_start_matches('(');
    let inner = match inner.rfind(')') { Some(i) => &inner[..i], None => inner };
    if inner.trim() == "..." { return (vec![], true); }
    let mut masks = vec![];
    for p in inner.split(',') {
        let p = p.trim(); if p.is_empty() { continue; }
        let ty = match p.split_once(':') { Some((_, t)) => t, None => { masks.push(15); continue; } };
        let ty = ty.split('=').next().unwrap_or("").trim();
        let mut m = 0;
        if ty.contains("Any") { m = 15; }
        if ty.contains("Boolean") { m |= 1; } if ty.contains("String") { m |= 2; } if ty.contains("Number") { m |= 4; } if ty.contains("Array") { m |= 8; }
        masks.push(if m == 0 { 15 } else { m });
    }
    (masks, false)
}

pub fn builtins_table() {
    let mut env = StaticEnvironment::default(); extend_environment(&mut env);
    println!("/-\n  SlacModel.Generated.Builtins — GENERATED on every check run by `slacharness builtins-table` from the running crate:\n  every entry of slac::stdlib::builtins() (name, arity, pure flag, declared parameter kinds) and the answers of a fresh\n  StaticEnvironment::function_exists(name, n) for n = 0..6 (0 = NotFound, 1 = WrongArity, 2 = Exists pure, 3 = Exists impure).\n-/");
    println!("set_option autoImplicit false\nnamespace Slac.Generated\n");
    println!("structure BuiltinRow where\n  name : List Char\n  kind : Nat        -- 0 polyadic, 1 variadic, 2 none\n  req : Nat\n  opt : Nat\n  pure : Bool\n  variadicDoc : Bool\n  docMasks : List Nat\n  existsAnswers : List Nat\n");
    println!("def builtins : List BuiltinRow := [");
    let bs = builtins();
    for (i, f) in bs.iter().enumerate() {
        let (kind, req, opt) = match f.arity { Arity::Polyadic { required, optional } => (0, required, optional), Arity::Variadic => (1, 0, 0), Arity::None => (2, 0, 0) };
        let (masks, var) = doc_masks(&f.params);
        let answers: Vec<String> = (0..=6).map(|n| match env.function_exists(&f.name, n) { FunctionResult::NotFound => "0", FunctionResult::WrongArity { .. } => "1", FunctionResult::Exists { pure: true } => "2", FunctionResult::Exists { pure: false } => "3" }.to_string()).collect();
        println!("  ⟨{}, {}, {}, {}, {}, {}, [{}], [{}]⟩{}", chars(&f.name), kind, req, opt, f.pure, var, masks.iter().map(|m| m.to_string()).collect::<Vec<_>>().join(","), answers.join(","), if i + 1 < bs.len() { "," } else { "" });
    }
    println!("]\n\nend Slac.Generated");
}

fn reps(kind: usize, j: usize) -> V {
    match (kind, j % 3) {
        (0, 0) => V::Boolean(true), (0, _) => V::Boolean(false),
        (1, 0) => V::String(String::new()), (1, 1) => V::String("abc".into()), (1, _) => V::String("1".into()),
        (2, 0) => V::Number(0.0), (2, 1) => V::Number(1.0), (2, _) => V::Number(-1.5),
        (_, 0) => V::Array(vec![]), (_, 1) => V::Array(vec![V::Number(1.0)]), (_, _) => V::Array(vec![V::String("a".into()), V::Boolean(true)]),
    }
}
/// outcome class of one call: 0 ok / other error, 1 WrongParameterType, 2 WrongParameterCount, 3 panic
fn class(f: &slac::function::Function, args: &[V]) -> u8 {
    match std::panic::catch_unwind(|| (f.func)(args)) {
        Err(_) => 3,
        Ok(Err(NativeError::WrongParameterCount(_))) => 2,
        Ok(Err(NativeError::WrongParameterType)) => 1,
        Ok(_) => 0,
    }
}
/// tuples of kinds of length 0..=5 over 4 kinds, enumerated length-first: index = offset(len) + base-4 digits
pub fn dispatch_table() {
    std::panic::set_hook(Box::new(|_| {}));
    println!("/-\n  SlacModel.Generated.Dispatch — GENERATED on every check run by `slacharness dispatch-table`: for every builtin and every\n  tuple of argument KINDS of length 0..5 (1365 tuples; kinds 0 Boolean 1 String 2 Number 3 Array; tuple index =\n  (4^len - 1)/3 + base-4 value of the kinds, first argument least significant) two flags over 8\n  combinations of representative values: bit 0 = some call answered WrongParameterCount, bit 1 = some call panicked.\n  Two bits per tuple, packed into one Nat per builtin (tuple t at bits 2t, 2t+1).\n-/");
    println!("set_option autoImplicit false\nnamespace Slac.Generated\n\ndef dispatch : List Nat := [");
    let bs = builtins();
    for (i, f) in bs.iter().enumerate() {
        let mut bits: Vec<u8> = vec![];
        for len in 0..=5usize {
            for code in 0..4usize.pow(len as u32) {
                let kinds: Vec<usize> = (0..len).map(|p| (code / 4usize.pow(p as u32)) % 4).collect();
                let mut worst = 0u8;     // bit 0: some combination answered WrongParameterCount; bit 1: some combination panicked
                for combo in 0..8usize {
                    let args: Vec<V> = kinds.iter().enumerate().map(|(p, k)| reps(*k, if combo < 3 { combo } else { combo * 7 + p * (combo + 1) })).collect();
                    match class(f, &args) { 3 => worst |= 2, 2 => worst |= 1, _ => {} }
                }
                bits.push(worst);
            }
        }
        // pack little-endian into a decimal Nat literal via u128 chunks -> use big decimal through string arithmetic
        let mut digits: Vec<u32> = vec![0];                   // base 1e9 limbs, little endian
        for b in bits.iter().rev() {
            let mut carry = *b as u64;
            for d in digits.iter_mut() { let v = (*d as u64) * 4 + carry; *d = (v % 1_000_000_000) as u32; carry = v / 1_000_000_000; }
            while carry > 0 { digits.push((carry % 1_000_000_000) as u32); carry /= 1_000_000_000; }
        }
        let mut sdec = format!("{}", digits.last().unwrap());
        for d in digits.iter().rev().skip(1) { sdec.push_str(&format!("{:09}", d)); }
        println!("  /- {} -/ {}{}", f.name, sdec, if i + 1 < bs.len() { "," } else { "" });
    }
    println!("]\n\nend Slac.Generated");
}
