//! Generators: values, trees (well-formed and ill-formed), environments.
use crate::codec::*;
use crate::env::*;
use crate::rng::Rng;
use slac::{Expression as E, Operator as O, Value as V};

pub const NUMS: &[f64] = &[0.0, -0.0, 1.0, -1.0, 0.5, -0.5, 2.5, -2.5, 3.0, -3.0, 9.5, 10.0, 1e300, -1e300, f64::MAX,
    f64::MIN_POSITIVE, 5e-324, -5e-324, f64::INFINITY, f64::NEG_INFINITY, f64::NAN, 9007199254740993.0,
    4503599627370496.5, 0.1, 0.30000000000000004, 86400000.0, 1e-7, 123456.789, 7.0, -7.0, 2.0, 9007199254740992.0,
    -9007199254740992.0, 1.5, -1.5, 255.0, 127.0, 128.0, 65.0, 4294967296.0, 1e19, -1e19, 0.49999999999999994,
    // integer-type limits: i64::MIN/MAX+1, i32 limits, u32::MAX, 2^64 (casts, integer fast paths, saturation)
    -9223372036854775808.0, 9223372036854775808.0, 2147483648.0, -2147483648.0, 2147483647.0, 4294967295.0, 18446744073709551616.0, -2147483649.0, 1e30, -1e30, 9223372036854777856.0];
pub const STRS: &[&str] = &["", "a", "abc", "9", "10", "9.5", "-0", "1e3", " 1", "nan", "NaN", "inf", "-inf", "+1", ".5", "5.", "1.",
    "0x10", "1_0", "ä", "äb", "z", "A", "true", "1e400", "1e-400", "0.1", "00", "-", "+", ".", "e5", "1e", "1e+", "infinity",
    "Infinity", "INF", "1.5e-3", "١", "0", "1", "false", "a'b", "{x}", "//", "aaa", "aa", "äöü", "e\u{301}", "𝄞x", " ", "\n", "Hello World",
    // line breaks of every convention INSIDE a text (a literal spanning a Windows line break): CR LF, LF CR, lone CR, doubled
    "a\r\nb", "\r\n", "\n\r", "x\r\n\r\ny\r", "\r", "+inf", "-Infinity",
    // digit strings at the limits of the integer types (a comparison "done exactly in i64" saturates here); NUL-terminated look-alikes
    "9223372036854775807", "-9223372036854775808", "9007199254740993", "18446744073709551615", "a\0", "\0",
    // what is an escape sequence / entity in OTHER languages and plain text here (a "convenience" decoder in the scanner or in a builtin shows)
    "\\u{41}", "^\\d+\\u{20AC}$", "\\n", "\\x41", "\\\\", "%41", "&#65;", "&amp;", "\\101", "\\t", "\\u0041", "\\'", "\\", "a\\",
    // number look-alikes that str::parse::<f64> rejects: typographic minus signs, full-width and Arabic-Indic digits, decimal commas, digit grouping
    "\u{2212}1", "\u{2212}12.5", "1e\u{2212}3", "\u{FF0D}3.25", "\u{2013}5", "\u{FE63}2", "\u{FF11}\u{FF12}", "12,5", "2,75", "1.234,5", "1,234.5", "1 000", "1'000", "1\u{a0}000", "\u{663}",
    // characters whose UTF-16 code-unit order differs from their scalar-value order (U+E000..U+FFFF against the supplementary planes)
    "\u{FF21}", "\u{1F600}", "\u{FFFD}x", "\u{E000}", "\u{10000}", "a\u{FB01}", "a\u{1F600}", "\u{FFFF}", "\u{10FFFF}"];

/// a decimal literal with MANY significant digits that lies exactly on, just above or just below the midpoint of two adjacent doubles
/// (exact integer arithmetic in u128): the nearest double depends on digits far beyond the 17th
pub fn midpoint_literal(r: &mut Rng) -> String {
    let nudge = |r: &mut Rng, digits: String, frac: Option<String>| -> String {
        // exact midpoint / a hair above (…0001 appended) / a hair below (last digit lowered, …9999 appended)
        let (mut i, mut f) = (digits, frac.unwrap_or_default());
        match r.below(4) {
            0 => {}
            1 | 2 => { f.push_str(&"0".repeat(r.usize(25))); f.push('1'); }
            _ => { let mut all: Vec<u8> = format!("{}{}", i, f).into_bytes(); let il = i.len(); let mut k = all.len();
                   while k > 0 { k -= 1; if all[k] > b'0' { all[k] -= 1; break; } else { all[k] = b'9'; } }
                   let t = String::from_utf8(all).unwrap(); i = t[..il].to_string(); f = t[il..].to_string(); f.push_str(&"9".repeat(1 + r.usize(25))); }
        }
        if f.is_empty() { if r.chance(1, 2) { i } else { format!("{}.", i) } } else { format!("{}.{}", i, f) }
    };
    if r.chance(1, 2) {
        // integer-valued doubles m * 2^k (m of 53 bits, 1 <= k <= 60): the midpoint to the next double is the integer (2m+1) * 2^(k-1)
        let m = (1u128 << 52) | (r.next() as u128 & ((1u128 << 52) - 1)); let k = 1 + r.below(60) as u32;
        let mid = (2 * m + 1) << (k - 1);
        nudge(r, mid.to_string(), None)
    } else {
        // 1 + j * 2^-52 for small j: the midpoint is 1 + (2j+1) * 2^-53 = 1.<(2j+1) * 5^53 written with 53 digits>
        let j = r.below(14) as u128; let p = 5u128.pow(53) * (2 * j + 1);
        nudge(r, "1".into(), Some(format!("{:053}", p)))
    }
}
pub fn gen_num(r: &mut Rng) -> f64 {
    match r.below(5) {
        0 | 1 => *r.pick(NUMS),
        2 => f64::from_bits(r.next()),
        3 => (r.below(21) as f64) - 10.0,
        _ => ((r.below(2001) as f64) - 1000.0) / (if r.below(2) == 0 { 1.0 } else { 8.0 }),
    }
}
pub fn gen_str(r: &mut Rng) -> String {
    match r.below(6) {
        0 => format!("{}", gen_num(r)),
        1 => { let n = r.below(5); (0..n).map(|_| *r.pick(&['a', 'b', 'A', '1', ' ', 'ä', '\'', '.', 'ß', 'Σ', '𝄞', '0'])).collect() }
        _ => r.pick(STRS).to_string(),
    }
}
pub fn gen_val(r: &mut Rng, depth: u32) -> V {
    match r.below(if depth == 0 { 3 } else { 4 }) {
        0 => V::Boolean(r.below(2) == 0),
        1 => V::Number(gen_num(r)),
        2 => V::String(gen_str(r)),
        _ => { let n = r.below(4); V::Array((0..n).map(|_| gen_val(r, depth - 1)).collect()) }
    }
}
/// small values: what literals in trees mostly are
pub fn gen_small_val(r: &mut Rng) -> V {
    match r.below(12) {
        0 => V::Boolean(true), 1 => V::Boolean(false),
        2 => V::Number(0.0), 3 => V::Number(1.0), 4 => V::Number(-2.5), 5 => V::Number(*r.pick(NUMS)),
        6 => V::String(String::new()), 7 => V::String("a".into()), 8 => V::String("1".into()), 9 => V::String(gen_str(r)),
        10 => V::Array(vec![]),
        _ => gen_val(r, 1),
    }
}

pub const VAR_NAMES: &[&str] = &["a", "b", "c", "x", "u", "v", "ab", "ü", "long_name1", "_", "ǆx", "σας"];
pub fn respell(r: &mut Rng, n: &str) -> String {
    if n == "ǆx" { return (*r.pick(&["ǆx", "ǅx", "ǄX", "ǆX"])).to_string(); }
    match r.below(4) {
        0 => n.to_uppercase(),
        1 => n.chars().enumerate().map(|(i, c)| if i % 2 == 0 { c.to_uppercase().next().unwrap() } else { c }).collect(),
        _ => n.to_string(),
    }
}

pub fn std_fns() -> Vec<FnDesc> {
    let f = |name: &str, kind: char, req: usize, opt: usize, pure: bool, beh: &str| FnDesc { name: name.into(), kind, req, opt, pure, beh: beh.into() };
    vec![
        f("first", 'P', 1, 0, true, "first"), f("cnt", 'V', 0, 0, true, "cnt"), f("bad", 'P', 0, 2, true, "fail"),
        f("mk", 'V', 0, 0, false, "arr"), f("k", 'N', 0, 0, true, "k0"), f("if_then", 'P', 2, 1, true, "ifthen"),
        f("imp", 'P', 1, 1, false, "first"), f("last", 'V', 0, 0, true, "last"), f("zero", 'P', 0, 0, true, "k1"),
        f("opt", 'P', 1, 2, true, "arr"), f("ibad", 'P', 0, 1, false, "fail"), f("ks", 'P', 0, 1, true, "k2"),
    ]
}
pub const FN_NAMES: &[&str] = &["first", "cnt", "bad", "mk", "k", "if_then", "imp", "last", "zero", "opt", "ibad", "ks", "nofn"];

pub fn gen_env(r: &mut Rng) -> EnvDesc {
    let mut d = EnvDesc::default();
    for n in VAR_NAMES { if r.chance(1, 2) { let name = respell(r, n); d.vars.push((name, gen_small_val(r))); } }
    for f in std_fns() { if r.chance(5, 6) { let mut f = f; f.name = respell(r, &f.name);
        // one name, different functions in different environments (a result remembered across environments shows), different purity
        if f.beh != "ifthen" && f.beh != "fail" && r.chance(1, 4) { f.beh = (*r.pick(&["first", "last", "cnt", "arr", "k1", "k2"])).to_string(); }
        if f.beh == "ifthen" && r.chance(1, 8) { f.pure = false; }
        d.fns.push(f); } }
    // a registration HISTORY: a name registered before is registered again (other spelling, the opposite purity, sometimes another arity and
    // function) - the environment answers for the registration made last, with nothing carried over from the one it replaces
    if !d.fns.is_empty() && r.chance(1, 3) { for _ in 0..1 + r.below(2) {
        let mut f = r.pick(&d.fns).clone(); f.name = respell(r, &f.name); f.pure = !f.pure;
        if f.beh != "ifthen" && r.chance(1, 3) { f.beh = (*r.pick(&["first", "last", "cnt", "arr", "k1", "k2"])).to_string(); if r.chance(1, 2) { f.kind = 'V'; } }
        d.fns.push(f); } }
    d
}

fn lit(v: V) -> E { E::Literal { value: v } }
fn bx(e: E) -> Box<E> { Box::new(e) }

/// a value that is `==` to `v` under the language's coercing equality but is NOT the same value (other kind, other zero sign):
/// what a cache keyed by `Value`'s `Eq`/`Hash`, or a "skip if unchanged" shortcut, confuses with `v`
pub fn loosen_val(r: &mut Rng, v: &V) -> V {
    match v {
        V::Number(x) if *x == 0.0 => match r.below(4) { 0 => V::Number(if x.is_sign_negative() { 0.0 } else { -0.0 }), 1 => V::Boolean(false), 2 => V::String("0".into()), _ => V::String("-0".into()) },
        V::Number(x) if *x == 1.0 => match r.below(3) { 0 => V::Boolean(true), 1 => V::String("1".into()), _ => V::String("1.0".into()) },
        V::Number(x) if x.is_nan() => V::Number(*x),
        V::Number(x) => V::String(format!("{}", x)),
        V::Boolean(b) => V::Number(if *b { 1.0 } else { 0.0 }),
        V::String(s) => match s.parse::<f64>() { Ok(x) if !x.is_nan() => V::Number(x), _ => V::String(s.clone()) },
        V::Array(a) => V::Array(a.iter().map(|x| loosen_val(r, x)).collect()),
    }
}
/// the same tree with every literal replaced by a loosely equal one
pub fn loosen_expr(r: &mut Rng, e: &E) -> E {
    match e {
        E::Literal { value } => lit(loosen_val(r, value)),
        E::Unary { right, operator } => E::Unary { right: bx(loosen_expr(r, right)), operator: *operator },
        E::Binary { left, right, operator } => E::Binary { left: bx(loosen_expr(r, left)), right: bx(loosen_expr(r, right)), operator: *operator },
        E::Ternary { left, middle, right, operator } => E::Ternary { left: bx(loosen_expr(r, left)), middle: bx(loosen_expr(r, middle)), right: bx(loosen_expr(r, right)), operator: *operator },
        E::Array { expressions } => E::Array { expressions: expressions.iter().map(|x| loosen_expr(r, x)).collect() },
        E::Call { name, params } => E::Call { name: name.clone(), params: params.iter().map(|x| loosen_expr(r, x)).collect() },
        other => other.clone(),
    }
}
/// loosely equal literals that stay SOURCE-EXPRESSIBLE (non-negative finite numbers, booleans, strings)
pub fn loosen_src_expr(r: &mut Rng, e: &E) -> E {
    match e {
        E::Literal { value: V::Number(x) } if *x == 0.0 => lit(if r.chance(1, 2) { V::Boolean(false) } else { V::String("0".into()) }),
        E::Literal { value: V::Number(x) } if *x == 1.0 => lit(if r.chance(1, 2) { V::Boolean(true) } else { V::String("1".into()) }),
        E::Literal { value: V::Number(x) } if x.is_finite() => lit(V::String(format!("{}", x))),
        E::Literal { value: V::Boolean(b) } => lit(V::Number(if *b { 1.0 } else { 0.0 })),
        E::Literal { value: V::String(s) } => match s.parse::<f64>() { Ok(x) if x.is_finite() && x >= 0.0 && !x.is_sign_negative() => lit(V::Number(x)), _ => e.clone() },
        E::Unary { right, operator } => E::Unary { right: bx(loosen_src_expr(r, right)), operator: *operator },
        E::Binary { left, right, operator } => E::Binary { left: bx(loosen_src_expr(r, left)), right: bx(loosen_src_expr(r, right)), operator: *operator },
        E::Array { expressions } => E::Array { expressions: expressions.iter().map(|x| loosen_src_expr(r, x)).collect() },
        E::Call { name, params } => E::Call { name: name.clone(), params: params.iter().map(|x| loosen_src_expr(r, x)).collect() },
        other => other.clone(),
    }
}
/// repeat sub-trees inside one tree: the same operand on both sides of an operator (`x and x`), the same call twice in one list, and
/// look-alike copies whose literals are only loosely equal (`f(1)` next to `f(true)`).  Shortcuts for "identical operands" and caches
/// that live for one `execute` only show on such trees.
pub fn add_repeats(r: &mut Rng, e: &mut E) {
    match e {
        E::Unary { right, .. } => add_repeats(r, right),
        E::Binary { left, right, .. } => {
            add_repeats(r, left);
            if r.chance(1, 4) { **right = if r.chance(1, 2) { (**left).clone() } else { loosen_expr(r, left) }; } else { add_repeats(r, right); }
        }
        E::Ternary { left, middle, right, .. } => { add_repeats(r, left); add_repeats(r, middle);
            if r.chance(1, 5) { **right = if r.chance(1, 2) { (**middle).clone() } else { loosen_expr(r, middle) }; } else { add_repeats(r, right); } }
        E::Array { expressions } | E::Call { params: expressions, .. } => {
            for x in expressions.iter_mut() { add_repeats(r, x); }
            if !expressions.is_empty() && expressions.len() < 6 && r.chance(1, 3) {
                let k = r.usize(expressions.len()); let c = if r.chance(1, 2) { expressions[k].clone() } else { loosen_expr(r, &expressions[k]) };
                let at = r.usize(expressions.len() + 1); expressions.insert(at, c);
            }
        }
        _ => {}
    }
}
/// WIDE trees: one list / argument list of `n` small elements.  `kind` 0..: elements that fail with an undefined variable and are
/// recovered by the enclosing operator (`u = ''`, `u or true`, `-u = ''`, `[u] = 1`, `cnt(u) <> 1`, a conditional on `u = 1`) - per-node
/// bookkeeping that is not undone on the error path adds up here; constant elements `1 + 1` - the tree is large but folds to a small one.
pub fn gen_wide_tree(r: &mut Rng, n: usize, kind: u64) -> E {
    let u = || E::Variable { name: "nope_undefined".into() };
    let elem = |i: usize| -> E { match kind {
        0 => E::Binary { left: bx(u()), right: bx(lit(V::String(String::new()))), operator: O::Equal },
        1 => E::Binary { left: bx(u()), right: bx(lit(V::Boolean(true))), operator: O::Or },
        2 => E::Binary { left: bx(E::Unary { right: bx(u()), operator: O::Minus }), right: bx(lit(V::String(String::new()))), operator: O::Equal },
        3 => E::Binary { left: bx(E::Array { expressions: vec![lit(V::Number(1.0)), u()] }), right: bx(lit(V::Number(1.0))), operator: O::NotEqual },
        4 => E::Binary { left: bx(E::Call { name: "cnt".into(), params: vec![u()] }), right: bx(lit(V::Number(1.0))), operator: O::NotEqual },
        5 => E::Binary { left: bx(lit(V::Boolean(true))), right: bx(E::Ternary { left: bx(u()), middle: bx(lit(V::Number(1.0))), right: bx(lit(V::Number(2.0))), operator: O::TernaryCondition }), operator: O::And },
        6 => E::Binary { left: bx(lit(V::Number(1.0))), right: bx(lit(V::Number(i as f64))), operator: O::Plus },
        _ => E::Binary { left: bx(E::Variable { name: "a".into() }), right: bx(lit(V::Number(1.0))), operator: O::Plus },
    } };
    let items: Vec<E> = (0..n).map(elem).collect();
    if r.chance(1, 3) { E::Call { name: "cnt".into(), params: items } } else { E::Array { expressions: items } }
}
pub const UNOPS: [O; 2] = [O::Minus, O::Not];
pub const BINOPS: [O; 15] = [O::Plus, O::Minus, O::Multiply, O::Divide, O::Greater, O::GreaterEqual, O::Less, O::LessEqual,
    O::Equal, O::NotEqual, O::And, O::Or, O::Xor, O::Div, O::Mod];

/// a name of 30 … 260 bytes in which a 2-, 3- or 4-byte character straddles a round byte offset (32, 64, 128, 256): anything that cuts, pads or indexes a
/// name by BYTES (a length guard for error texts, a fixed buffer) meets a character boundary problem exactly there
pub fn long_name(r: &mut Rng) -> String {
    let edge = *r.pick(&[32usize, 64, 128, 256]); let wide = *r.pick(&['é', '€', '𝄞', 'ж', 'ü']);
    let before = edge - 1 - r.usize(wide.len_utf8().min(3));            // the wide character starts 1 … 3 bytes before the edge (or ends exactly on it)
    let mut n: String = (0..before).map(|i| char::from(b'a' + (i % 26) as u8)).collect();
    n.push(wide); for _ in 0..r.usize(6) { n.push(*r.pick(&['x', 'é', '€', '_', '9'])); }
    n
}
/// tree generator. `ill`: operators in any position, odd names, wrong argument counts.
pub fn gen_tree(r: &mut Rng, depth: u32, ill: bool) -> E {
    let leaf = depth == 0 || r.chance(1, 4);
    if leaf {
        return match r.below(10) {
            0..=4 => lit(gen_small_val(r)),
            5..=7 => E::Variable { name: { let n = *r.pick(VAR_NAMES); respell(r, n) } },
            8 => E::Call { name: (*r.pick(&["k", "zero", "bad", "nofn", "cnt"])).to_string(), params: vec![] },
            _ => if ill { if r.chance(1, 3) { let n = long_name(r); if r.chance(1, 2) { E::Variable { name: n } } else { E::Call { name: n, params: vec![] } } }
                          else { E::Variable { name: (*r.pick(&["", " ", "1", "a b", "'"])).to_string() } } } else { lit(gen_small_val(r)) },
        };
    }
    let d = depth - 1;
    if r.chance(1, 14) {
        // `f(ok…, g(ok, undefined) = x, ok…)`: the inner list fails midway, the failure is absorbed by the operator, the outer list goes on
        let undef = || E::Variable { name: "nope_undefined".into() };
        let n1 = 1 + r.below(3); let mut inner: Vec<E> = (0..n1).map(|_| gen_tree(r, 0, false)).collect(); inner.push(undef()); if r.chance(1, 2) { inner.push(gen_tree(r, 0, false)); }
        let failing = if r.chance(2, 3) { E::Call { name: (*r.pick(&["arr", "cnt", "first", "last", "mk"])).to_string(), params: inner } } else { E::Array { expressions: inner } };
        let absorbed = E::Binary { left: bx(failing), right: bx(gen_tree(r, 0, false)), operator: *r.pick(&[O::Equal, O::NotEqual, O::And, O::Or]) };
        let mut outer: Vec<E> = (0..r.below(3)).map(|_| gen_tree(r, d.min(1), false)).collect(); let at = r.usize(outer.len() + 1); outer.insert(at, absorbed); if r.chance(1, 2) { outer.push(gen_tree(r, 0, false)); }
        return if r.chance(2, 3) { E::Call { name: (*r.pick(&["arr", "cnt", "first", "last"])).to_string(), params: outer } } else { E::Array { expressions: outer } };
    }
    match r.below(12) {
        0 | 1 => E::Unary { right: bx(gen_tree(r, d, ill)), operator: if ill && r.chance(1, 3) { *r.pick(&OPS) } else { *r.pick(&UNOPS) } },
        2..=6 => E::Binary { left: bx(gen_tree(r, d, ill)), right: bx(gen_tree(r, d, ill)),
                             operator: if ill && r.chance(1, 4) { *r.pick(&OPS) } else { *r.pick(&BINOPS) } },
        7 => E::Ternary { left: bx(gen_tree(r, d, ill)), middle: bx(gen_tree(r, d, ill)), right: bx(gen_tree(r, d, ill)),
                          operator: if ill && r.chance(1, 3) { *r.pick(&OPS) } else { O::TernaryCondition } },
        8 => { let n = r.below(4); E::Array { expressions: (0..n).map(|_| gen_tree(r, d, ill)).collect() } }
        _ => {
            let name = { let n = *r.pick(FN_NAMES); respell(r, n) };
            let n = r.below(4);
            E::Call { name, params: (0..n).map(|_| gen_tree(r, d, ill)).collect() }
        }
    }
}

/// operands for the enumerated operator x kind x kind x {defined, undefined, failing} table
pub fn operand_pool() -> Vec<E> {
    let mut p: Vec<E> = vec![
        V::Boolean(true), V::Boolean(false), V::Number(0.0), V::Number(-0.0), V::Number(1.0), V::Number(-7.0), V::Number(2.0),
        V::Number(2.5), V::Number(f64::NAN), V::Number(f64::INFINITY), V::Number(5e-324), V::Number(-1.0), V::Number(-9223372036854775808.0), V::String(String::new()),
        V::String("a".into()), V::String("1".into()), V::String("9".into()), V::String("10".into()), V::String("nan".into()),
        V::Array(vec![]), V::Array(vec![V::Number(1.0)]), V::Array(vec![V::Array(vec![])]), V::Array(vec![V::String("1".into()), V::Boolean(true)]),
    ].into_iter().map(lit).collect();
    p.push(E::Variable { name: "undef".into() });                      // undefined
    p.push(E::Variable { name: "T".into() });                          // defined true
    p.push(E::Variable { name: "Z".into() });                          // defined 0
    p.push(E::Call { name: "bad".into(), params: vec![] });            // failing
    p.push(E::Binary { left: bx(lit(V::Number(1.0))), right: bx(lit(V::String("a".into()))), operator: O::Plus }); // failing
    p.push(E::Call { name: "cnt".into(), params: vec![lit(V::Number(1.0))] });     // recorded call, value 1
    p
}
pub fn table_env() -> EnvDesc {
    let mut d = EnvDesc::default();
    d.vars.push(("t".into(), V::Boolean(true)));
    d.vars.push(("z".into(), V::Number(0.0)));
    d.fns = std_fns();
    d
}
/// the enumerated table: every operator in unary, binary and ternary position over the operand pool
pub fn table_case(i: usize) -> Option<E> {
    let p = operand_pool(); let n = p.len();
    let nbin = 17 * n * n; let nun = 17 * n; let ntern = 17 * n * 3;
    if i < nbin { let (o, l, rr) = (i / (n * n), (i / n) % n, i % n);
        return Some(E::Binary { left: bx(p[l].clone()), right: bx(p[rr].clone()), operator: OPS[o] }); }
    let i = i - nbin;
    if i < nun { return Some(E::Unary { right: bx(p[i % n].clone()), operator: OPS[i / n] }); }
    let i = i - nun;
    if i < ntern { let (o, c, k) = (i / (n * 3), (i / 3) % n, i % 3);
        let (m, rr) = match k { 0 => (p[n - 1].clone(), p[n - 2].clone()), 1 => (p[n - 6].clone(), p[n - 1].clone()), _ => (p[0].clone(), p[n - 3].clone()) };
        return Some(E::Ternary { left: bx(p[c].clone()), middle: bx(m), right: bx(rr), operator: OPS[o] }); }
    None
}
pub fn table_len() -> usize { let n = operand_pool().len(); 17 * n * n + 17 * n + 17 * n * 3 }

/// a tree nested to exactly `depth` levels along one spine (ill-formed operators allowed), small random siblings
/// a tree with ONE regular spine of `depth` levels (unary chain, left/right operator chain, else-if chain, then-chain, nested arrays,
/// nested calls, nested if_then calls, or a mix) ending in a leaf that matters to the tree functions: a non-Boolean literal, an undefined
/// variable, an unknown function, an impure call, a NaN. Depth guards, recursion limits and "give up below level N" shortcuts show here.
pub fn gen_spine_tree(r: &mut Rng, depth: u32) -> E {
    let shape = r.below(12);
    let leaf = match r.below(8) { 0 => lit(V::Number(42.0)), 1 => lit(V::Boolean(r.chance(1, 2))), 2 => E::Variable { name: "nope_undefined".into() },
        3 => E::Call { name: "nofn".into(), params: vec![] }, 4 => lit(V::Array(vec![V::Number(1.0)])), 5 => lit(V::String("s".into())),
        6 => E::Call { name: { let n = *r.pick(FN_NAMES); n.to_string() }, params: vec![lit(V::Number(1.0))] }, _ => gen_tree(r, 1, false) };
    let op = *r.pick(&[O::And, O::Or, O::Plus, O::Equal, O::Xor, O::Less]);
    let cond_lit = r.chance(3, 4);
    let alt_fixed = if r.chance(1, 2) { Some((*r.pick(&[O::Plus, O::Minus, O::Multiply, O::Less, O::Xor]), *r.pick(&[O::NotEqual, O::Equal, O::And, O::Or, O::NotEqual]), r.chance(2, 3))) } else { None };
    let mut e = leaf;
    for _ in 0..depth {
        let side = |r: &mut Rng| -> E { match r.below(4) { 0 => lit(V::Boolean(true)), 1 => lit(V::Boolean(false)), 2 => lit(V::Number(1.0)), _ => E::Variable { name: (*r.pick(&["a", "T", "x"])).to_string() } } };
        let cond = |_r: &mut Rng, want: bool| -> E { if cond_lit { lit(V::Boolean(want)) } else { E::Variable { name: (if want { "T" } else { "F" }).to_string() } } };
        let k = if shape == 9 { r.below(9) } else { shape };
        // shapes 10, 11: TWO node kinds alternating along the left spine, the inner one with an undefined variable (or a failing call) as its
        // right operand, the outer one an operator that absorbs or compares it: work that is repeated per level multiplies along this spine
        if k >= 10 {
            let (inner_op, outer_op, left_side) = alt_fixed.unwrap_or((*r.pick(&[O::Plus, O::Minus, O::Multiply, O::Less, O::Xor]), *r.pick(&[O::NotEqual, O::Equal, O::And, O::Or]), r.chance(1, 2)));
            let bad = if k == 10 { E::Variable { name: "nope_undefined".into() } } else { E::Call { name: "bad".into(), params: vec![] } };
            let zero = lit(V::Number(0.0));
            e = if left_side { E::Binary { left: bx(E::Binary { left: bx(e), right: bx(bad), operator: inner_op }), right: bx(zero), operator: outer_op } }
                else { E::Binary { left: bx(zero), right: bx(E::Binary { left: bx(bad), right: bx(e), operator: inner_op }), operator: outer_op } };
            continue;
        }
        e = match k {
            0 => E::Unary { right: bx(e), operator: O::Not },
            1 => E::Unary { right: bx(e), operator: O::Minus },
            2 => E::Binary { left: bx(e), right: bx(side(r)), operator: op },
            3 => E::Binary { left: bx(side(r)), right: bx(e), operator: op },
            4 => E::Ternary { left: bx(cond(r, false)), middle: bx(lit(V::Boolean(true))), right: bx(e), operator: O::TernaryCondition },   // else-if chain
            5 => E::Ternary { left: bx(cond(r, true)), middle: bx(e), right: bx(lit(V::Boolean(false))), operator: O::TernaryCondition },    // then chain
            6 => E::Array { expressions: vec![e] },
            7 => E::Call { name: "if_then".into(), params: vec![cond(r, true), e, lit(V::Boolean(false))] },
            _ => E::Call { name: { let n = *r.pick(FN_NAMES); n.to_string() }, params: vec![e] },
        };
    }
    e
}
/// a constant-foldable CHAIN of `len` levels (1000-2500 in the streams): `1+1+…+1`, `- - - 1`, `not not … true`, nested three-argument if_then
/// calls, nested one-element arrays; what needs as many optimizer passes as it has levels (a pass cap or a round limit shows here)
pub fn gen_chain_tree(r: &mut Rng, len: u32) -> E {
    // (the left-nested `1+1+…` shape stays below 400 levels: the model's trace function is cubic on it)
    let shape = { let k = r.below(5); if k == 0 && len > 400 { 4 } else { k } };
    let mut e = match shape { 2 => lit(V::Boolean(true)), _ => lit(V::Number(1.0)) };
    for i in 0..len {
        e = match shape {
            0 => E::Binary { left: bx(e), right: bx(lit(V::Number(1.0))), operator: if i % 2 == 0 { O::Plus } else { O::Minus } },
            1 => E::Unary { right: bx(e), operator: O::Minus },
            2 => E::Unary { right: bx(e), operator: O::Not },
            3 => E::Call { name: "if_then".into(), params: vec![lit(V::Boolean(i % 3 != 0)), e, lit(V::Number(0.0))] },
            _ => E::Binary { left: bx(lit(V::Number(2.0))), right: bx(e), operator: O::Multiply },
        };
    }
    if r.chance(1, 3) { E::Binary { left: bx(e), right: bx(E::Variable { name: "x".into() }), operator: O::Plus } } else { e }
}
/// VERY deep regular chains (thousands of levels: 4097, 8193, 10000 …) for every tree function: else-if and then ladders, `not` / `-` chains, right-nested
/// products, nested arrays / calls / three-argument if_then calls, ending in a leaf that matters (a non-Boolean literal, an undefined variable, an unknown
/// function, an impure call).  A "give up below level N" guard in a validator, the optimizer or the interpreter shows only here.
pub fn gen_vchain_tree(r: &mut Rng, depth: u32, shape: u64) -> E {
    let leaf = match r.below(6) { 0 => lit(V::Number(5.0)), 1 => E::Variable { name: "nope_undefined".into() }, 2 => E::Call { name: "nofn".into(), params: vec![] },
        3 => E::Call { name: "mk".into(), params: vec![lit(V::Number(1.0))] }, 4 => E::Binary { left: bx(lit(V::Number(1.0))), right: bx(lit(V::Number(1.0))), operator: O::Plus }, _ => lit(V::Boolean(true)) };
    let cond_lit = r.chance(1, 2);
    let cond = |want: bool| -> E { if cond_lit { lit(V::Boolean(want)) } else { E::Variable { name: (if want { "T" } else { "F" }).to_string() } } };
    let mut e = leaf;
    for i in 0..depth {
        e = match shape % 8 {
            0 => E::Ternary { left: bx(cond(false)), middle: bx(lit(V::Boolean(true))), right: bx(e), operator: O::TernaryCondition },
            1 => E::Ternary { left: bx(cond(true)), middle: bx(e), right: bx(lit(V::Boolean(false))), operator: O::TernaryCondition },
            2 => E::Unary { right: bx(e), operator: O::Not },
            3 => E::Unary { right: bx(e), operator: O::Minus },
            4 => E::Binary { left: bx(lit(V::Number(if i % 2 == 0 { 1.0 } else { 2.0 }))), right: bx(e), operator: if i % 2 == 0 { O::Multiply } else { O::Plus } },
            5 => E::Array { expressions: vec![e] },
            6 => E::Call { name: "first".into(), params: vec![e] },
            _ => E::Call { name: "if_then".into(), params: vec![cond(true), e, lit(V::Number(0.0))] },
        };
    }
    e
}
pub fn gen_deep_tree(r: &mut Rng, depth: u32) -> E {
    if depth == 0 { return gen_tree(r, 0, true); }
    let inner = gen_deep_tree(r, depth - 1);
    let side = |r: &mut Rng| gen_tree(r, 1, true);
    match r.below(9) {
        0 => E::Unary { right: bx(inner), operator: *r.pick(&OPS) },
        1 => E::Binary { left: bx(inner), right: bx(side(r)), operator: *r.pick(&OPS) },
        2 => E::Binary { left: bx(side(r)), right: bx(inner), operator: *r.pick(&OPS) },
        3 => E::Ternary { left: bx(inner), middle: bx(side(r)), right: bx(side(r)), operator: if r.chance(3, 4) { O::TernaryCondition } else { *r.pick(&OPS) } },
        4 => E::Ternary { left: bx(side(r)), middle: bx(inner), right: bx(side(r)), operator: O::TernaryCondition },
        5 => E::Ternary { left: bx(side(r)), middle: bx(side(r)), right: bx(inner), operator: O::TernaryCondition },
        6 => E::Array { expressions: vec![side(r), inner] },
        7 => E::Call { name: "if_then".into(), params: vec![side(r), inner, side(r)] },
        _ => E::Call { name: { let n = *r.pick(FN_NAMES); n.to_string() }, params: vec![inner] },
    }
}
