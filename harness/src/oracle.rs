//! Rust-side reference oracles (falsifiers): answers computed WITHOUT the code under test.
use crate::codec::*;
use crate::env::behaviour;
use slac::Value as V;
use std::collections::BTreeMap;

pub fn oracle_line(line: &str) -> String {
    let mut t = Toks::new(line);
    match t.next() {
        Some("env") => oracle_env(&mut t).unwrap_or_else(|| "bad".into()),
        Some("call") => oracle_call(&mut t).unwrap_or_else(|| "n/a".into()),
        _ => "n/a".into(),
    }
}

#[derive(Clone)]
struct F { name: String, kind: char, req: usize, opt: usize, pure: bool, beh: String }
fn show_f(f: &F) -> String {
    let a = match f.kind { 'P' => format!("P{}+{}", f.req, f.opt), 'V' => "V".into(), _ => "N".into() };
    format!("{}:{}:{}:{}", hex(&f.name), a, if f.pure { 1 } else { 0 }, f.beh)
}
fn parse_f(t: &mut Toks) -> Option<F> {
    let name = t.name()?; let kind = t.next()?.chars().next()?; let req = t.usize()?; let opt = t.usize()?;
    let pure = t.next()? == "1"; let beh = t.next()?.to_string();
    Some(F { name, kind, req, opt, pure, beh })
}
/// C19's specification: a map from case-folded names to the most recently added entry; two namespaces.
fn oracle_env(t: &mut Toks) -> Option<String> {
    let mut vars: BTreeMap<String, V> = BTreeMap::new();
    let mut fns: BTreeMap<String, F> = BTreeMap::new();
    let key = |n: &str| n.to_lowercase();
    let mut out: Vec<String> = vec![];
    while let Some(op) = t.next() {
        let ans = match op {
            "av" => { let n = t.name()?; let v = t.value()?; vars.insert(key(&n), v); "-".to_string() }
            "rv" => { let n = t.name()?; match vars.remove(&key(&n)) { Some(v) => format!("some {}", show(&v)), None => "none".into() } }
            "cv" => { vars.clear(); "-".into() }
            "af" => { let f = parse_f(t)?; fns.insert(key(&f.name), f); "-".into() }
            "afs" => { let k = t.usize()?; for _ in 0..k { let f = parse_f(t)?; fns.insert(key(&f.name), f); } "-".into() }
            "ext" => { let k = t.usize()?; for _ in 0..k { let f = parse_f(t)?; fns.insert(key(&f.name), f); } "-".into() }   // extend_environment = add_functions(builtins())
            "rf" => { let n = t.name()?; match fns.remove(&key(&n)) { Some(f) => format!("some {}", show_f(&f)), None => "none".into() } }
            "gv" => { let n = t.name()?; match vars.get(&key(&n)) { Some(v) => format!("some {}", show(v)), None => "none".into() } }
            "ve" => { let n = t.name()?; (if vars.contains_key(&key(&n)) { "T" } else { "F" }).to_string() }
            "cl" => { let n = t.name()?; let k = t.usize()?; let mut args = vec![]; for _ in 0..k { args.push(t.value()?); }
                      match fns.get(&key(&n)) { Some(f) => show_nres(&(behaviour(&f.beh)?)(&args)), None => format!("err FunctionNotFound {}", hex(&n)) } }
            "fe" => { let n = t.name()?; let k = t.usize()?;
                      match fns.get(&key(&n)) {
                          None => "NotFound".to_string(),
                          Some(f) => { let (lo, hi, shown) = match f.kind { 'P' => (f.req, f.req + f.opt, (f.req, f.req + f.opt)), 'V' => (1, usize::MAX, (1, 99)), _ => (0, 0, (0, 0)) };
                              if k >= lo && k <= hi { format!("Exists {}", if f.pure { 1 } else { 0 }) } else { format!("WrongArity {} {}", shown.0, shown.1) } } } }
            "lf" => { let mut l: Vec<String> = fns.values().map(show_f).collect(); l.sort(); format!("[{}]", l.join(" ")) }
            _ => return None,
        };
        out.push(ans);
    }
    Some(out.join(" , "))
}

/// side information for `call` lines of the ordering builtins: is the compared collection in the Safe domain?
fn oracle_call(t: &mut Toks) -> Option<String> {
    let _off = t.next()?; let name = t.name()?; let n = t.usize()?;
    if !["sort", "max", "min", "between"].contains(&name.as_str()) { return None; }
    let mut args = vec![]; for _ in 0..n { args.push(t.value()?); }
    Some(format!("info {}", if crate::laws::is_safe(&args) { "safe" } else { "unsafe" }))
}
