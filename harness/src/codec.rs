//! Line protocol codec: values, operators, expressions, errors — printing and parsing.
//! Numbers travel as 16 hex digits of the bit pattern (output: all NaNs collapsed to `Nnan`),
//! strings/names as hex of their UTF-8 bytes (`-` when empty).
use slac::stdlib::NativeError;
use slac::{Error, Expression as E, Operator as O, Value as V};

pub fn hex(s: &str) -> String {
    if s.is_empty() { "-".into() } else { s.bytes().map(|b| format!("{:02x}", b)).collect() }
}
pub fn unhex(h: &str) -> Option<String> {
    if h == "-" { return Some(String::new()); }
    if h.len() % 2 != 0 { return None; }
    let mut bytes = Vec::with_capacity(h.len() / 2);
    for i in (0..h.len()).step_by(2) { bytes.push(u8::from_str_radix(h.get(i..i + 2)?, 16).ok()?); }
    String::from_utf8(bytes).ok()
}

/// value as protocol *input* (exact bits)
pub fn show_in(v: &V) -> String {
    match v {
        V::Boolean(b) => if *b { "B1".into() } else { "B0".into() },
        V::Number(x) => format!("N{:016x}", x.to_bits()),
        V::String(s) => format!("S{}", hex(s)),
        V::Array(a) => { let mut p = vec![format!("A{}", a.len())]; p.extend(a.iter().map(show_in)); p.join(" ") }
    }
}
/// value as protocol *output* (NaN payloads are not an observation)
pub fn show(v: &V) -> String {
    match v {
        V::Number(x) if x.is_nan() => "Nnan".into(),
        V::Array(a) => { let mut p = vec![format!("A{}", a.len())]; p.extend(a.iter().map(show)); p.join(" ") }
        _ => show_in(v),
    }
}

pub const OPS: [O; 17] = [O::Plus, O::Minus, O::Multiply, O::Divide, O::Greater, O::GreaterEqual, O::Less, O::LessEqual,
    O::Equal, O::NotEqual, O::And, O::Or, O::Xor, O::Not, O::Div, O::Mod, O::TernaryCondition];
pub fn op_name(o: O) -> String { format!("{:?}", o) }
pub fn op_parse(s: &str) -> Option<O> { OPS.iter().copied().find(|o| op_name(*o) == s) }

pub fn show_expr(e: &E) -> String {
    match e {
        E::Literal { value } => format!("L {}", show_in(value)),
        E::Variable { name } => format!("V {}", hex(name)),
        E::Unary { right, operator } => format!("U {} {}", op_name(*operator), show_expr(right)),
        E::Binary { left, right, operator } => format!("I {} {} {}", op_name(*operator), show_expr(left), show_expr(right)),
        E::Ternary { left, middle, right, operator } =>
            format!("T {} {} {} {}", op_name(*operator), show_expr(left), show_expr(middle), show_expr(right)),
        E::Array { expressions } => {
            let mut p = vec![format!("R {}", expressions.len())]; p.extend(expressions.iter().map(show_expr)); p.join(" ") }
        E::Call { name, params } => {
            let mut p = vec![format!("C {} {}", hex(name), params.len())]; p.extend(params.iter().map(show_expr)); p.join(" ") }
    }
}
/// expression as output (literals with collapsed NaN)
pub fn show_expr_out(e: &E) -> String {
    match e {
        E::Literal { value } => format!("L {}", show(value)),
        E::Variable { name } => format!("V {}", hex(name)),
        E::Unary { right, operator } => format!("U {} {}", op_name(*operator), show_expr_out(right)),
        E::Binary { left, right, operator } => format!("I {} {} {}", op_name(*operator), show_expr_out(left), show_expr_out(right)),
        E::Ternary { left, middle, right, operator } =>
            format!("T {} {} {} {}", op_name(*operator), show_expr_out(left), show_expr_out(middle), show_expr_out(right)),
        E::Array { expressions } => {
            let mut p = vec![format!("R {}", expressions.len())]; p.extend(expressions.iter().map(show_expr_out)); p.join(" ") }
        E::Call { name, params } => {
            let mut p = vec![format!("C {} {}", hex(name), params.len())]; p.extend(params.iter().map(show_expr_out)); p.join(" ") }
    }
}

pub struct Toks<'a> { pub t: Vec<&'a str>, pub i: usize }
impl<'a> Toks<'a> {
    pub fn new(line: &'a str) -> Self { Toks { t: line.split_ascii_whitespace().collect(), i: 0 } }
    pub fn next(&mut self) -> Option<&'a str> { let r = self.t.get(self.i).copied(); self.i += 1; r }
    pub fn peek(&self) -> Option<&'a str> { self.t.get(self.i).copied() }
    pub fn usize(&mut self) -> Option<usize> { self.next()?.parse().ok() }
    pub fn name(&mut self) -> Option<String> { unhex(self.next()?) }
    pub fn rest(&self) -> String { self.t[self.i.min(self.t.len())..].join(" ") }
    pub fn value(&mut self) -> Option<V> {
        let t = self.next()?;
        let (k, r) = t.split_at(1);
        match k {
            "B" => Some(V::Boolean(r == "1")),
            "N" => if r == "nan" { Some(V::Number(f64::NAN)) } else { Some(V::Number(f64::from_bits(u64::from_str_radix(r, 16).ok()?))) },
            "S" => Some(V::String(unhex(r)?)),
            "A" => { let n: usize = r.parse().ok()?; let mut v = Vec::new(); for _ in 0..n { v.push(self.value()?); } Some(V::Array(v)) }
            _ => None,
        }
    }
    pub fn expr(&mut self) -> Option<E> {
        match self.next()? {
            "L" => Some(E::Literal { value: self.value()? }),
            "V" => Some(E::Variable { name: self.name()? }),
            "U" => { let o = op_parse(self.next()?)?; Some(E::Unary { right: Box::new(self.expr()?), operator: o }) }
            "I" => { let o = op_parse(self.next()?)?; let l = self.expr()?; let r = self.expr()?;
                     Some(E::Binary { left: Box::new(l), right: Box::new(r), operator: o }) }
            "T" => { let o = op_parse(self.next()?)?; let l = self.expr()?; let m = self.expr()?; let r = self.expr()?;
                     Some(E::Ternary { left: Box::new(l), middle: Box::new(m), right: Box::new(r), operator: o }) }
            "R" => { let n = self.usize()?; let mut v = Vec::new(); for _ in 0..n { v.push(self.expr()?); } Some(E::Array { expressions: v }) }
            "C" => { let name = self.name()?; let n = self.usize()?; let mut v = Vec::new(); for _ in 0..n { v.push(self.expr()?); }
                     Some(E::Call { name, params: v }) }
            _ => None,
        }
    }
}

fn debug_head<T: std::fmt::Debug>(x: &T) -> String {
    format!("{:?}", x).chars().take_while(|c| c.is_ascii_alphanumeric()).collect()
}
pub fn show_native_err(e: &NativeError) -> String {
    match e {
        NativeError::FunctionNotFound(n) => format!("FunctionNotFound {}", hex(n)),
        NativeError::WrongParameterCount(k) => format!("WrongParameterCount {}", k),
        NativeError::WrongParameterType => "WrongParameterType".into(),
        NativeError::IndexOutOfBounds(i) => format!("IndexOutOfBounds {}", i),
        NativeError::IndexNegative => "IndexNegative".into(),
        NativeError::CustomError(_) => "CustomError".into(),
        #[allow(unreachable_patterns)]
        other => format!("Other{}", debug_head(other)), // a variant added after this harness was written
    }
}
pub fn show_err(e: &Error) -> String {
    match e {
        Error::UndefinedVariable(n) => format!("UndefinedVariable {}", hex(n)),
        Error::InvalidUnaryOperator(o) => format!("InvalidUnaryOperator {}", op_name(*o)),
        Error::InvalidBinaryOperator(o) => format!("InvalidBinaryOperator {}", op_name(*o)),
        Error::InvalidTernaryOperator(o) => format!("InvalidTernaryOperator {}", op_name(*o)),
        Error::NativeFunctionError(f, ne) => format!("NativeFunctionError {} {}", hex(f), show_native_err(ne)),
        Error::MissingVariable(n) => format!("MissingVariable {}", hex(n)),
        Error::MissingFunction(n) => format!("MissingFunction {}", hex(n)),
        Error::ParamCountMismatch(n, a, b, c) => format!("ParamCountMismatch {} {} {} {}", hex(n), a, b, c),
        Error::LiteralNotBoolean => "LiteralNotBoolean".into(),
        Error::Eof => "Eof".into(),
        Error::InvalidCharacter(c) => format!("InvalidCharacter {:x}", *c as u32),
        Error::InvalidNumber(_) => "InvalidNumber".into(),
        Error::UnterminatedStringLiteral => "UnterminatedStringLiteral".into(),
        Error::MultipleExpressions(_) => "MultipleExpressions".into(),
        Error::NoValidPrefixToken(_) => "NoValidPrefixToken".into(),
        Error::NoValidInfixToken(_) => "NoValidInfixToken".into(),
        Error::CallNotOnVariable(_) => "CallNotOnVariable".into(),
        Error::PreviousTokenNotFound => "PreviousTokenNotFound".into(),
        Error::InvalidToken(_) => "InvalidToken".into(),
        Error::TokenNotAnOperator(_) => "TokenNotAnOperator".into(),
        #[allow(unreachable_patterns)]
        other => format!("Other{}", debug_head(other)), // a variant added after this harness was written
    }
}
pub fn show_res(r: &Result<V, Error>) -> String {
    match r { Ok(v) => format!("ok {}", show(v)), Err(e) => format!("err {}", show_err(e)) }
}
pub fn show_nres(r: &Result<V, NativeError>) -> String {
    match r { Ok(v) => format!("ok {}", show(v)), Err(e) => format!("err {}", show_native_err(e)) }
}
