//! Law checkers evaluated on the real crate (falsifiers for C13): answer `ok` or `viol <law>`, plus ` safe|unsafe`
//! — whether the collection lies in the domain on which the recorded known finding does not apply.
use crate::codec::*;
use crate::lang::same_val;
use slac::stdlib::common::{between, compare, max, min, sort};
use slac::Value as V;

fn leaves<'a>(v: &'a V, out: &mut Vec<&'a V>) { match v { V::Array(a) => for x in a { leaves(x, out) }, _ => out.push(v) } }
/// no NaN leaf, and not both a numeric-string leaf and a Number leaf
pub fn is_safe(vs: &[V]) -> bool {
    let mut l = vec![]; for v in vs { leaves(v, &mut l); }
    let nan = l.iter().any(|v| matches!(v, V::Number(x) if x.is_nan()));
    let numstr = l.iter().any(|v| matches!(v, V::String(s) if s.parse::<f64>().map_or(false, |x| !x.is_nan())));
    let num = l.iter().any(|v| matches!(v, V::Number(_)));
    !nan && !(numstr && num)
}
fn b(r: Result<V, slac::stdlib::NativeError>) -> Option<bool> { match r { Ok(V::Boolean(x)) => Some(x), _ => None } }
fn n(r: Result<V, slac::stdlib::NativeError>) -> Option<f64> { match r { Ok(V::Number(x)) => Some(x), _ => None } }

fn pair_laws(a: &V, x: &V) -> Option<&'static str> {
    if (a < x) != (x > a) { return Some("lt-gt"); }
    if (a <= x) != !(a > x) { return Some("le-not-gt"); }
    if (a >= x) != (x <= a) { return Some("ge-le"); }
    if (a != x) != !(a == x) { return Some("ne-not-eq"); }
    if (a == x) != (x == a) { return Some("eq-symm"); }
    let c = n(compare(&[a.clone(), x.clone()]));
    match c { Some(c) if c == -1.0 || c == 0.0 || c == 1.0 => {
        if (c == -1.0) != (a < x) { return Some("compare-lt"); }
        if (c == 1.0) != (a > x) { return Some("compare-gt"); }
        if (c == 0.0) != (a <= x && a >= x) { return Some("compare-eq"); } }
        _ => return Some("compare-range") }
    None
}
/// `ord a b c`
pub fn run_ord(t: &mut Toks) -> Option<String> {
    let a = t.value()?; let x = t.value()?; let c = t.value()?;
    let safe = if is_safe(&[a.clone(), x.clone(), c.clone()]) { "safe" } else { "unsafe" };
    let mut viol: Option<&str> = None;
    for (p, q) in [(&a, &x), (&x, &c), (&a, &c), (&a, &a)] { if viol.is_none() { viol = pair_laws(p, q); } }
    if viol.is_none() && a <= x && x <= c && !(a <= c) { viol = Some("le-trans"); }
    if viol.is_none() && a < x && x < c && !(a < c) { viol = Some("lt-trans"); }
    if viol.is_none() && !(a <= x || x <= a) { viol = Some("total"); }
    if viol.is_none() { // between(v, lo, hi) iff lo <= v and v <= hi
        if b(between(&[a.clone(), x.clone(), c.clone()])) != Some(x <= a && a <= c) { viol = Some("between"); } }
    Some(match viol { None => format!("ok {}", safe), Some(l) => format!("viol {} {}", l, safe) })
}
fn multiset(v: &[V]) -> Vec<String> { let mut s: Vec<String> = v.iter().map(show).collect(); s.sort(); s }
/// `sortlaw <array>`: sort / min / max laws on one array
pub fn run_sortlaw(t: &mut Toks) -> Option<String> {
    let arr = match t.value()? { V::Array(a) => a, _ => return None };
    let safe = if is_safe(&arr) { "safe" } else { "unsafe" };
    let r = std::panic::catch_unwind(|| sortlaw_inner(&arr));
    Some(match r { Ok(None) => format!("ok {}", safe), Ok(Some(l)) => format!("viol {} {}", l, safe), Err(_) => format!("panic {}", safe) })
}
fn sortlaw_inner(arr: &Vec<V>) -> Option<&'static str> {
    let mut viol: Option<&str> = None;
    match sort(&[V::Array(arr.clone())]) {
        Ok(V::Array(s)) => {
            if multiset(&s) != multiset(&arr) { viol = Some("sort-perm"); }
            else if s.windows(2).any(|w| w[0] > w[1]) { viol = Some("sort-adjacent"); }
            else { match sort(&[V::Array(s.clone())]) { Ok(V::Array(s2)) => if s2.len() != s.len() || !s2.iter().zip(&s).all(|(p, q)| same_val(p, q)) { viol = Some("sort-idempotent"); }, _ => viol = Some("sort-err") } }
        }
        _ => viol = Some("sort-err"),
    }
    if viol.is_none() && !arr.is_empty() {
        match (max(&[V::Array(arr.clone())]), min(&[V::Array(arr.clone())])) {
            (Ok(mx), Ok(mn)) => {
                if !arr.iter().any(|v| same_val(v, &mx)) { viol = Some("max-member"); }
                else if !arr.iter().any(|v| same_val(v, &mn)) { viol = Some("min-member"); }
                else if arr.iter().any(|v| v > &mx) { viol = Some("max-bound"); }
                else if arr.iter().any(|v| v < &mn) { viol = Some("min-bound"); }
            }
            _ => viol = Some("minmax-err"),
        }
    }
    viol
}

/// `poslaw <hex s> <hex x>`: C15's position coherence evaluated on the builtins themselves (string offset of this build)
pub fn run_poslaw(t: &mut Toks) -> Option<String> {
    use slac::stdlib::common::{at, copy, find, length};
    use slac::stdlib::STRING_OFFSET as OFF;
    let s = t.name()?; let x = t.name()?;
    let sv = V::String(s.clone()); let xv = V::String(x.clone());
    let chars: Vec<char> = s.chars().collect();
    let len = match length(&[sv.clone()]) { Ok(V::Number(l)) => l, _ => return Some("viol length-err".into()) };
    if len != chars.len() as f64 { return Some("viol length-chars".into()); }
    // at(s, i) over first..first+length(s)-1 enumerates s; first-1 and first+length are out of range
    for (i, c) in chars.iter().enumerate() {
        if at(&[sv.clone(), V::Number(OFF + i as f64)]) != Ok(V::String(c.to_string())) { return Some("viol at-enumerates".into()); }
    }
    if at(&[sv.clone(), V::Number(OFF - 1.0)]).is_ok() || at(&[sv.clone(), V::Number(OFF + len)]).is_ok() { return Some("viol at-range".into()); }
    let f = match find(&[sv.clone(), xv.clone()]) { Ok(V::Number(p)) => p, _ => return Some("viol find-err".into()) };
    if s.contains(&x) {
        // copy(s, find(s,x), length(x)) = x
        let lx = match length(&[xv.clone()]) { Ok(V::Number(l)) => l, _ => return Some("viol length-err".into()) };
        if copy(&[sv.clone(), V::Number(f), V::Number(lx)]) != Ok(xv.clone()) { return Some("viol copy-find".into()); }
        if f < OFF { return Some("viol find-present".into()); }
    } else if f != OFF - 1.0 { return Some("viol find-absent".into()); }
    // arrays: always from 0, failed find = -1
    let arr: Vec<V> = chars.iter().map(|c| V::String(c.to_string())).collect();
    for (i, v) in arr.iter().enumerate() { if at(&[V::Array(arr.clone()), V::Number(i as f64)]).as_ref() != Ok(v) { return Some("viol at-array".into()); } }
    if find(&[V::Array(arr.clone()), V::String("\u{1}nope".into())]) != Ok(V::Number(-1.0)) { return Some("viol find-array-absent".into()); }
    Some("ok".into())
}
