//! Law checkers evaluated on the real crate (falsifiers for C13): answer `ok` or `viol <law>`, plus ` safe|unsafe`
//! — whether the collection lies in the domain on which the recorded known finding does not apply.
use crate::codec::*;
use crate::lang::same_val;
use slac::stdlib::common::{between, compare, max, min, sort};
use slac::Value as V;

fn leaves<'a>(v: &'a V, out: &mut Vec<&'a V>) { match v { V::Array(a) => for x in a { leaves(x, out) }, _ => out.push(v) } }
/// no NaN leaf, and not both a numeric-string leaf and a Number leaf
pub fn is_safe(vs: &[V]) -> bool {
    let mut l = vec![]; for v in vs { leaves(v, &mut l); }
    let nan = l.iter().any(|v| matches!(v, V::Number(x) if x.is_nan()));
    let numstr = l.iter().any(|v| matches!(v, V::String(s) if s.parse::<f64>().map_or(false, |x| !x.is_nan())));
    let num = l.iter().any(|v| matches!(v, V::Number(_)));
    !nan && !(numstr && num)
}
fn b(r: Result<V, slac::stdlib::NativeError>) -> Option<bool> { match r { Ok(V::Boolean(x)) => Some(x), _ => None } }
fn n(r: Result<V, slac::stdlib::NativeError>) -> Option<f64> { match r { Ok(V::Number(x)) => Some(x), _ => None } }

fn pair_laws(a: &V, x: &V) -> Option<&'static str> {
    if (a < x) != (x > a) { return Some("lt-gt"); }
    if (a <= x) != !(a > x) { return Some("le-not-gt"); }
    if (a >= x) != (x <= a) { return Some("ge-le"); }
    if (a != x) != !(a == x) { return Some("ne-not-eq"); }
    if (a == x) != (x == a) { return Some("eq-symm"); }
    let c = n(compare(&[a.clone(), x.clone()]));
    match c { Some(c) if c == -1.0 || c == 0.0 || c == 1.0 => {
        if (c == -1.0) != (a < x) { return Some("compare-lt"); }
        if (c == 1.0) != (a > x) { return Some("compare-gt"); }
        if (c == 0.0) != (a <= x && a >= x) { return Some("compare-eq"); } }
        _ => return Some("compare-range") }
    None
}
/// `ord a b c`
pub fn run_ord(t: &mut Toks) -> Option<String> {
    let a = t.value()?; let x = t.value()?; let c = t.value()?;
    let safe = if is_safe(&[a.clone(), x.clone(), c.clone()]) { "safe" } else { "unsafe" };
    let mut viol: Option<&str> = None;
    for (p, q) in [(&a, &x), (&x, &c), (&a, &c), (&a, &a)] { if viol.is_none() { viol = pair_laws(p, q); } }
    if viol.is_none() && a <= x && x <= c && !(a <= c) { viol = Some("le-trans"); }
    if viol.is_none() && a < x && x < c && !(a < c) { viol = Some("lt-trans"); }
    if viol.is_none() && !(a <= x || x <= a) { viol = Some("total"); }
    if viol.is_none() { // between(v, lo, hi) iff lo <= v and v <= hi
        if b(between(&[a.clone(), x.clone(), c.clone()])) != Some(x <= a && a <= c) { viol = Some("between"); } }
    Some(match viol { None => format!("ok {}", safe), Some(l) => format!("viol {} {}", l, safe) })
}
fn multiset(v: &[V]) -> Vec<String> { let mut s: Vec<String> = v.iter().map(show).collect(); s.sort(); s }
/// `sortlaw <array>`: sort / min / max laws on one array
pub fn run_sortlaw(t: &mut Toks) -> Option<String> {
    let arr = match t.value()? { V::Array(a) => a, _ => return None };
    let safe = if is_safe(&arr) { "safe" } else { "unsafe" };
    let r = std::panic::catch_unwind(|| sortlaw_inner(&arr));
    Some(match r { Ok(None) => format!("ok {}", safe), Ok(Some(l)) => format!("viol {} {}", l, safe), Err(_) => format!("panic {}", safe) })
}
fn sortlaw_inner(arr: &Vec<V>) -> Option<&'static str> {
    let mut viol: Option<&str> = None;
    match sort(&[V::Array(arr.clone())]) {
        Ok(V::Array(s)) => {
            if multiset(&s) != multiset(&arr) { viol = Some("sort-perm"); }
            else if s.windows(2).any(|w| w[0] > w[1]) { viol = Some("sort-adjacent"); }
            else { match sort(&[V::Array(s.clone())]) { Ok(V::Array(s2)) => if s2.len() != s.len() || !s2.iter().zip(&s).all(|(p, q)| same_val(p, q)) { viol = Some("sort-idempotent"); }, _ => viol = Some("sort-err") } }
        }
        _ => viol = Some("sort-err"),
    }
    if viol.is_none() && !arr.is_empty() {
        match (max(&[V::Array(arr.clone())]), min(&[V::Array(arr.clone())])) {
            (Ok(mx), Ok(mn)) => {
                if !arr.iter().any(|v| same_val(v, &mx)) { viol = Some("max-member"); }
                else if !arr.iter().any(|v| same_val(v, &mn)) { viol = Some("min-member"); }
                else if arr.iter().any(|v| v > &mx) { viol = Some("max-bound"); }
                else if arr.iter().any(|v| v < &mn) { viol = Some("min-bound"); }
            }
            _ => viol = Some("minmax-err"),
        }
    }
    viol
}

/// `poslaw <hex s> <hex x>`: C15's position coherence evaluated on the builtins themselves (string offset of this build)
pub fn run_poslaw(t: &mut Toks) -> Option<String> {
    use slac::stdlib::common::{at, copy, find, length};
    use slac::stdlib::STRING_OFFSET as OFF;
    let s = t.name()?; let x = t.name()?;
    let sv = V::String(s.clone()); let xv = V::String(x.clone());
    let chars: Vec<char> = s.chars().collect();
    let len = match length(&[sv.clone()]) { Ok(V::Number(l)) => l, _ => return Some("viol length-err".into()) };
    if len != chars.len() as f64 { return Some("viol length-chars".into()); }
    // at(s, i) over first..first+length(s)-1 enumerates s; first-1 and first+length are out of range
    for (i, c) in chars.iter().enumerate() {
        if at(&[sv.clone(), V::Number(OFF + i as f64)]) != Ok(V::String(c.to_string())) { return Some("viol at-enumerates".into()); }
    }
    if at(&[sv.clone(), V::Number(OFF - 1.0)]).is_ok() || at(&[sv.clone(), V::Number(OFF + len)]).is_ok() { return Some("viol at-range".into()); }
    let f = match find(&[sv.clone(), xv.clone()]) { Ok(V::Number(p)) => p, _ => return Some("viol find-err".into()) };
    if s.contains(&x) {
        // copy(s, find(s,x), length(x)) = x
        let lx = match length(&[xv.clone()]) { Ok(V::Number(l)) => l, _ => return Some("viol length-err".into()) };
        if copy(&[sv.clone(), V::Number(f), V::Number(lx)]) != Ok(xv.clone()) { return Some("viol copy-find".into()); }
        if f < OFF { return Some("viol find-present".into()); }
    } else if f != OFF - 1.0 { return Some("viol find-absent".into()); }
    // case functions: same_text(a, b) iff lowercase(a) = lowercase(b); uppercase/lowercase are what str::to_*case says
    {
        use slac::stdlib::string::{lowercase, same_text, uppercase};
        let up = uppercase(&[sv.clone()]); let lo = lowercase(&[sv.clone()]);
        if up != Ok(V::String(s.to_uppercase())) || lo != Ok(V::String(s.to_lowercase())) { return Some("viol case-mapping".into()); }
        let (upv, lov) = (V::String(s.to_uppercase()), V::String(s.to_lowercase()));
        for other in [upv, lov, xv.clone()] {
            let expect = match (&lowercase(&[other.clone()]), &lo) { (Ok(a), Ok(b)) => same_val(a, b), _ => false };
            if same_text(&[sv.clone(), other.clone()]) != Ok(V::Boolean(expect)) { return Some("viol same_text".into()); }
        }
    }
    // arrays: always from 0, failed find = -1
    let arr: Vec<V> = chars.iter().map(|c| V::String(c.to_string())).collect();
    for (i, v) in arr.iter().enumerate() { if at(&[V::Array(arr.clone()), V::Number(i as f64)]).as_ref() != Ok(v) { return Some("viol at-array".into()); } }
    if find(&[V::Array(arr.clone()), V::String("\u{1}nope".into())]) != Ok(V::Number(-1.0)) { return Some("viol find-array-absent".into()); }
    Some("ok".into())
}

/// `mathlaw …` (C17): conversion and maths builtins against their definitions, evaluated on the crate
pub fn run_mathlaw(t: &mut Toks) -> Option<String> {
    use slac::stdlib::{common, math, string};
    let numr = |r: Result<V, slac::stdlib::NativeError>| match r { Ok(V::Number(x)) => Some(x), _ => None };
    let same = |a: Option<f64>, b: f64| a.map_or(false, |a| a.to_bits() == b.to_bits() || (a.is_nan() && b.is_nan()));
    match t.next()? {
        "num" => {
            let x = f64::from_bits(u64::from_str_radix(t.next()?, 16).ok()?);
            let y = f64::from_bits(u64::from_str_radix(t.next()?, 16).ok()?);
            let a = [V::Number(x)];
            let checks: [(&str, bool); 17] = [
                ("parity_huge", !x.is_finite() || x.abs() < 9007199254740992.0 || (math::even(&a) == Ok(V::Boolean(true)) && math::odd(&a) == Ok(V::Boolean(false)))),
                ("abs", same(numr(math::abs(&a)), x.abs())), ("round", same(numr(math::round(&a)), x.round())), ("trunc", same(numr(math::trunc(&a)), x.trunc())),
                ("frac", same(numr(math::frac(&a)), x.fract())), ("sqrt", same(numr(math::sqrt(&a)), x.sqrt())), ("exp", same(numr(math::exp(&a)), x.exp())),
                ("ln", same(numr(math::ln(&a)), x.ln())), ("sin", same(numr(math::sin(&a)), x.sin())), ("cos", same(numr(math::cos(&a)), x.cos())),
                ("arc_tan", same(numr(math::arc_tan(&a)), x.atan())), ("pow2", same(numr(math::pow(&a)), x.powf(2.0))), ("pow", same(numr(math::pow(&[V::Number(x), V::Number(y)])), x.powf(y))),
                ("float_str", match common::str(&a) { Ok(sv) => same(numr(common::float(&[sv])), x), _ => false }),
                ("int", same(numr(common::int(&a)), x.trunc())),
                ("trunc_frac", !x.is_finite() || match (numr(math::trunc(&a)), numr(math::frac(&a))) { (Some(tr), Some(fr)) => tr + fr == x, _ => false }),
                ("round_half_away", !x.is_finite() || x.abs() >= 4503599627370496.0 || { let r = numr(math::round(&a)).unwrap_or(f64::NAN); let fl = x.abs().floor(); let expect = if x.abs() - fl >= 0.5 { fl + 1.0 } else { fl }; r.abs() == expect && (r == 0.0 || r.is_sign_negative() == x.is_sign_negative()) }),
            ];
            for (n, ok) in checks { if !ok { return Some(format!("viol {}", n)); } }
            Some("ok num".into())
        }
        "cp" => {
            let from: u32 = t.next()?.parse().ok()?; let cnt: u32 = t.next()?.parse().ok()?;
            for cp in from..from + cnt {
                let cr = string::chr(&[V::Number(cp as f64)]);
                if cp <= 127 { let c = char::from_u32(cp)?;
                    if cr != Ok(V::String(c.to_string())) { return Some(format!("viol chr {}", cp)); }
                    if string::ord(&[V::String(c.to_string())]) != Ok(V::Number(cp as f64)) { return Some(format!("viol ord {}", cp)); } }
                else { if cr.is_ok() { return Some(format!("viol chr-accepts {}", cp)); }
                    if let Some(c) = char::from_u32(cp) { if string::ord(&[V::String(c.to_string())]).is_ok() { return Some(format!("viol ord-accepts {}", cp)); } } }
            }
            if string::ord(&[V::String(String::new())]).is_ok() || string::ord(&[V::String("ab".into())]).is_ok() || string::chr(&[V::Number(-1.0)]).is_ok() || string::chr(&[V::Number(f64::NAN)]).is_ok() { return Some("viol rejects".into()); }
            Some("ok cp".into())
        }
        "int" => {
            let n: i64 = t.next()?.parse().ok()?;
            let x = n as f64; if x as i64 != n { return Some("ok int-skip".into()); }      // not representable: nothing to check
            let ev = math::even(&[V::Number(x)]); let od = math::odd(&[V::Number(x)]);
            if ev != Ok(V::Boolean(n % 2 == 0)) { return Some(format!("viol even {}", n)); }
            if od != Ok(V::Boolean(n % 2 != 0)) { return Some(format!("viol odd {}", n)); }
            if n >= 0 && math::int_to_hex(&[V::Number(x)]) != Ok(V::String(format!("{:X}", n))) { return Some(format!("viol hex {}", n)); }
            if n >= 0 && math::int_to_hex(&[V::Number(x + 0.5)]) != Ok(V::String(format!("{:X}", (x + 0.5).trunc() as i64))) { return Some(format!("viol hex-trunc {}", n)); }
            Some("ok int".into())
        }
        _ => None,
    }
}
