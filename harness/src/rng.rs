//! splitmix64: every random choice of the harness derives from one state seeded by VERIF_SEED.
pub struct Rng(pub u64);
impl Rng {
    pub fn new(seed: u64) -> Self { Rng(seed.wrapping_mul(0x9E3779B97F4A7C15) ^ 0xD1B54A32D192ED03) }
    pub fn next(&mut self) -> u64 {
        self.0 = self.0.wrapping_add(0x9E3779B97F4A7C15);
        let mut z = self.0;
        z = (z ^ (z >> 30)).wrapping_mul(0xBF58476D1CE4E5B9);
        z = (z ^ (z >> 27)).wrapping_mul(0x94D049BB133111EB);
        z ^ (z >> 31)
    }
    pub fn below(&mut self, n: u64) -> u64 { if n == 0 { 0 } else { self.next() % n } }
    pub fn usize(&mut self, n: usize) -> usize { self.below(n as u64) as usize }
    pub fn chance(&mut self, num: u64, den: u64) -> bool { self.below(den) < num }
    pub fn pick<'a, T>(&mut self, xs: &'a [T]) -> &'a T { &xs[self.usize(xs.len())] }
}
