//! `script` stream: the whole pipeline end to end — source text → compile → validate → execute, optimize → execute —
//! against an environment holding the full standard library (`extend_environment`) plus variables.
use crate::codec::*;
use crate::gen::*;
use crate::rng::Rng;
use slac::stdlib::extend_environment;
use slac::{check_boolean_result, check_variables_and_functions, compile, execute, optimize, Expression as E, Operator as O, StaticEnvironment, Value as V};

fn lit(v: V) -> E { E::Literal { value: v } }
/// an expression whose value is `v`, written with source-expressible literals only
fn value_expr(v: &V) -> E {
    match v {
        V::Number(x) if x.is_nan() => E::Binary { left: Box::new(lit(V::Number(0.0))), right: Box::new(lit(V::Number(0.0))), operator: O::Divide },
        V::Number(x) if x.is_infinite() => { let inf = E::Binary { left: Box::new(lit(V::Number(1.0))), right: Box::new(lit(V::Number(0.0))), operator: O::Divide };
            if *x < 0.0 { E::Unary { right: Box::new(inf), operator: O::Minus } } else { inf } }
        V::Number(x) if x.is_sign_negative() => E::Unary { right: Box::new(lit(V::Number(-*x))), operator: O::Minus },
        V::Array(a) => E::Array { expressions: a.iter().map(value_expr).collect() },
        other => lit(other.clone()),
    }
}
const PURE_FNS: &[&str] = &["all", "any", "at", "between", "bool", "contains", "compare", "copy", "count", "empty", "find", "float", "if_then", "insert", "int", "length",
    "max", "min", "replace", "remove", "reverse", "sort", "str", "unique", "chr", "ord", "lowercase", "uppercase", "same_text", "split", "split_csv", "trim", "trim_left",
    "trim_right", "abs", "frac", "round", "sqrt", "trunc", "int_to_hex", "even", "odd", "date", "time", "date_to_string", "string_to_date", "string_to_time", "string_to_datetime",
    "day_of_week", "encode_date", "encode_time", "inc_month", "is_leap_year", "year", "month", "day", "hour", "minute", "second", "millisecond"];
const SVARS: &[(&str, &str)] = &[("price", "n"), ("qty", "n"), ("name", "s"), ("tags", "a"), ("active", "b"), ("when", "d")];

fn gen_call(r: &mut Rng, depth: u32) -> E {
    let name = *r.pick(PURE_FNS);
    let mut args: Vec<E> = crate::call::gen_args(r, name).iter().map(value_expr).collect();
    // sometimes a variable or a nested call in argument position
    if !args.is_empty() && r.chance(1, 3) { let k = r.usize(args.len()); args[k] = if depth > 0 && r.chance(1, 2) { gen_call(r, depth - 1) } else { E::Variable { name: { let v = r.pick(SVARS).0; respell(r, v) } } }; }
    E::Call { name: if r.chance(1, 5) { respell(r, name) } else { name.to_string() }, params: args }
}
fn gen_expr(r: &mut Rng, depth: u32) -> E {
    if depth == 0 || r.chance(1, 4) {
        return match r.below(12) { 0..=4 => gen_call(r, 1), 5..=7 => E::Variable { name: { let v = r.pick(SVARS).0; respell(r, v) } }, 8 => E::Variable { name: "missing".into() }, _ => value_expr(&gen_small_val(r)) };
    }
    match r.below(10) {
        0 => E::Unary { right: Box::new(gen_expr(r, depth - 1)), operator: *r.pick(&UNOPS) },
        1..=6 => { let l = gen_expr(r, depth - 1); let rr = if r.chance(1, 8) { if r.chance(1, 2) { l.clone() } else { loosen_expr(r, &l) } } else { gen_expr(r, depth - 1) };
                   E::Binary { left: Box::new(l), right: Box::new(rr), operator: *r.pick(&BINOPS) } }
        7 => { let n = r.below(3); E::Array { expressions: (0..n).map(|_| gen_expr(r, depth - 1)).collect() } }
        8 => E::Call { name: "if_then".into(), params: vec![gen_expr(r, depth - 1), gen_expr(r, depth - 1), gen_expr(r, depth - 1)] },
        _ => gen_call(r, depth - 1),
    }
}
/// `[f(args), f(args'), f(args)]` with args' loosely equal to args; no variables
pub fn gen_pair_line(r: &mut Rng, name: &str) -> String {
    let args = crate::call::gen_args(r, name);
    let args2: Vec<V> = args.iter().map(|a| if r.chance(3, 4) { loosen_val(r, a) } else { a.clone() }).collect();
    let call = |a: &[V]| E::Call { name: name.to_string(), params: a.iter().map(value_expr).collect() };
    let e = match r.below(3) { 0 => E::Array { expressions: vec![call(&args), call(&args2)] }, 1 => E::Array { expressions: vec![call(&args2), call(&args), call(&args2)] },
        _ => E::Binary { left: Box::new(E::Call { name: "str".into(), params: vec![call(&args)] }), right: Box::new(E::Call { name: "str".into(), params: vec![call(&args2)] }), operator: O::Plus } };
    format!("script {} 0", hex(&crate::lang::render_text(&e, r.below(4))))
}
/// nested calls of ONE variadic reducer (`max(a, max(b, c))`, `min(min(a, b), c, d)` …) over values that `Value::cmp` does NOT order transitively
/// ('abc' / '10' / 9, a NaN between two numbers, numeric strings of different digit counts), some of them held in variables so that the inner call
/// cannot be folded: regrouping or flattening such a call changes which element wins
fn gen_regroup_line(r: &mut Rng) -> String {
    const TRIPLES: &[[&str; 3]] = &[["sabc", "s10", "n9"], ["n2", "nNaN", "n1"], ["s9", "n9.5", "s10"], ["s10", "n9", "sabc"], ["n1", "nNaN", "n0"], ["s95", "n100", "s100"],
        ["bT", "s1", "n0.5"], ["n3", "n2", "n1"], ["s", "n0", "bF"], ["nNaN", "n5", "nNaN"]];
    let f = *r.pick(&["max", "min"]); let t = r.pick(TRIPLES);
    let val = |c: &str| -> V { let body = &c[1..]; match &c[..1] { "s" => V::String(body.into()), "b" => V::Boolean(body == "T"), _ => V::Number(if body == "NaN" { f64::NAN } else { body.parse().unwrap() }) } };
    let mut vars: Vec<(String, V)> = vec![]; let mut order: Vec<usize> = vec![0, 1, 2]; if r.chance(1, 2) { let k = r.usize(3); order.swap(0, k); }
    let mut leaf = |r: &mut Rng, i: usize, force_var: bool| -> E { let v = val(t[i]); if force_var || r.chance(1, 3) { let n = format!("t{}", i + 1); vars.push((n.clone(), v)); E::Variable { name: n } } else { value_expr(&v) } };
    let fv = r.usize(2);
    let (a, b, c) = (leaf(r, order[0], false), leaf(r, order[1], fv == 0), leaf(r, order[2], fv == 1));
    let call = |ps: Vec<E>| E::Call { name: f.to_string(), params: ps };
    let e = match r.below(4) { 0 | 1 => call(vec![a, call(vec![b, c])]), 2 => call(vec![call(vec![b, c]), a]), _ => call(vec![a, call(vec![b, c]), lit(V::Number(1.0))]) };
    let mut p = vec![format!("script {}", hex(&crate::lang::render_text(&e, r.below(4)))), format!("{}", vars.len())];
    for (n, v) in &vars { p.push(hex(n)); p.push(show_in(v)); }
    p.join(" ")
}
pub fn gen_script_line(r: &mut Rng) -> String {
    if r.chance(1, 12) { return gen_regroup_line(r); }
    let d = r.below(3) as u32; let e = gen_expr(r, d);
    let st = r.below(4); let text = crate::lang::render_text(&e, st);
    let mut p = vec![format!("script {}", hex(&text))];
    let mut vars = vec![];
    for (n, k) in SVARS { if r.chance(9, 10) {
        let v = match *k { "n" => V::Number(*r.pick(&[0.0, 1.0, 2.5, -3.0, 10.0, 1e6, 19000.75])), "s" => V::String(gen_str(r)), "a" => gen_val(r, 1), "b" => V::Boolean(r.chance(1, 2)), _ => V::Number(19000.0 + (r.below(100000) as f64) / 100.0) };
        let v = if matches!(v, V::Array(_)) || *k != "a" { v } else { V::Array(vec![v]) };
        vars.push((respell(r, n), v)); } }
    p.push(format!("{}", vars.len()));
    for (n, v) in &vars { p.push(hex(n)); p.push(show_in(v)); }
    p.join(" ")
}
fn st(r: &Result<(), slac::Error>) -> String { match r { Ok(()) => "ok".into(), Err(e) => format!("err {}", show_err(e)) } }

pub fn run_script(t: &mut Toks) -> Option<String> {
    let src = t.name()?; let nv = t.usize()?;
    let mut env = StaticEnvironment::default(); extend_environment(&mut env);
    for _ in 0..nv { let n = t.name()?; let v = t.value()?; env.add_variable(&n, v); }
    let e = match compile(&src) { Ok(e) => e, Err(err) => return Some(format!("err {}", show_err(&err))) };
    let chk = check_variables_and_functions(&env, &e); let cb = check_boolean_result(&e);
    let r1 = execute(&env, &e);
    let mut e2 = e.clone(); let o = optimize(&env, &mut e2); let r2 = execute(&env, &e2);
    Some(format!("ok ; chk {} ; bool {} ; exec {} ; opt {} ; exec2 {}", st(&chk), st(&cb), show_res(&r1), st(&o), show_res(&r2)))
}
