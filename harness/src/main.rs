#![allow(dead_code)]
//! slacharness — the implementation side of the correspondence check.
//!   slacharness gen <stream> <n> <seed>     protocol lines for a stream on stdout
//!   slacharness run                          stdin lines → answers of the real crate (one per line, flushed)
//!   slacharness oracle                       stdin lines → answers of a Rust-side reference (streams that have one)
mod codec;
mod env;
mod gen;
mod lang;
mod tree;
mod numrun;
mod oracle;
mod rng;
mod run;

use std::io::{BufRead, Write};

fn gen_stream(stream: &str, n: u64, seed: u64) {
    use codec::*;
    let mut r = rng::Rng::new(seed ^ stream.bytes().fold(0u64, |a, b| a.wrapping_mul(131).wrapping_add(b as u64)));
    let out = std::io::stdout(); let mut w = std::io::BufWriter::new(out.lock());
    match stream {
        "cmp" => for _ in 0..n { let a = gen::gen_val(&mut r, 2); let b = if r.chance(1, 8) { a.clone() } else { gen::gen_val(&mut r, 2) };
            writeln!(w, "cmp {} {}", show_in(&a), show_in(&b)).unwrap(); },
        "num" => for _ in 0..n { writeln!(w, "{}", numrun::gen_num_line(&mut r)).unwrap(); },
        "evaltable" => { let d = gen::table_env().show(); for i in 0..gen::table_len() { writeln!(w, "eval {} {}", d, show_expr(&gen::table_case(i).unwrap())).unwrap(); } }
        "eval" | "evalill" => for _ in 0..n { let d = gen::gen_env(&mut r); let depth = 1 + r.below(4) as u32;
            let e = gen::gen_tree(&mut r, depth, stream == "evalill"); writeln!(w, "eval {} {}", d.show(), show_expr(&e)).unwrap(); },
        "scanfrag" => { // exhaustive fragment sequences up to length n (n = 3 or 4), then nothing random
            for len in 1..=(n as usize) { for i in 0..32u64.pow(len as u32) { writeln!(w, "scan {}", hex(&lang::frag_seq(i, len))).unwrap(); } } }
        "scan" => for _ in 0..n { writeln!(w, "scan {}", hex(&lang::gen_text(&mut r))).unwrap(); },
        "compile" => for _ in 0..n { writeln!(w, "compile {}", hex(&lang::gen_text(&mut r))).unwrap(); },
        "rr" => for _ in 0..n { writeln!(w, "rr {}", hex(&lang::gen_text(&mut r))).unwrap(); },
        "lay" => for _ in 0..n { let (a, b) = lang::gen_layout_pair(&mut r); writeln!(w, "lay {} {}", hex(&a), hex(&b)).unwrap(); },
        "parsekinds" => { let kinds = lang::tok_kinds(); let k = kinds.len() as u64;
            for len in 0..=(n as usize) { for mut i in 0..k.pow(len as u32) { let mut ts = vec![]; for _ in 0..len { ts.push(kinds[(i % k) as usize].clone()); i /= k; }
                writeln!(w, "parse {}", lang::show_tok_line(&ts)).unwrap(); } } }
        "parse" => for _ in 0..n { let len = r.usize(41); let ts = lang::gen_tokens(&mut r, len); writeln!(w, "parse {}", lang::show_tok_line(&ts)).unwrap(); },
        "rt" => for _ in 0..n { let d = 1 + r.below(4) as u32; let e = lang::gen_src_tree(&mut r, d); writeln!(w, "rt {} {}", r.below(6), show_expr(&e)).unwrap(); },
        "opt" | "optill" => for _ in 0..n { let d = gen::gen_env(&mut r); let depth = 1 + r.below(4) as u32;
            let e = tree::gen_opt_tree(&mut r, depth, stream == "optill"); writeln!(w, "opt {} {}", d.show(), show_expr(&e)).unwrap(); },
        "chkvf" => for _ in 0..n { let d = gen::gen_env(&mut r); let depth = 1 + r.below(3) as u32;
            let ill = r.chance(1, 4); let e = if r.chance(1, 2) { tree::gen_opt_tree(&mut r, depth, false) } else { gen::gen_tree(&mut r, depth, ill) }; writeln!(w, "chkvf {} {}", d.show(), show_expr(&e)).unwrap(); },
        "chkbool" => for _ in 0..n { let d = gen::gen_env(&mut r); let depth = 1 + r.below(3) as u32;
            let ill = r.chance(1, 4); let e = if r.chance(1, 2) { tree::gen_opt_tree(&mut r, depth, ill) } else { gen::gen_tree(&mut r, depth, ill) }; writeln!(w, "chkbool {} {}", d.show(), show_expr(&e)).unwrap(); },
        "json" => for _ in 0..n { let depth = r.below(4) as u32; let e = match r.below(3) { 0 => lang::gen_src_tree(&mut r, depth), 1 => tree::gen_opt_tree(&mut r, depth, true), _ => gen::gen_tree(&mut r, depth, true) };
            writeln!(w, "json {}", show_expr(&e)).unwrap(); },
        "env" => for _ in 0..n { let big = r.chance(1, 10); let len = 1 + r.usize(if big { 200 } else { 20 }); let wide = r.chance(1, 2); writeln!(w, "{}", tree::gen_env_line(&mut r, len, wide)).unwrap(); },
        "envex" => { let a = tree::env_alphabet().len() as u64; for len in 1..=(n as usize) { for i in 0..a.pow(len as u32) { writeln!(w, "{}", tree::env_exhaustive(i, len)).unwrap(); } } }
        _ => { eprintln!("unknown stream {stream}"); std::process::exit(2); }
    }
}

fn main() {
    let args: Vec<String> = std::env::args().collect();
    match args.get(1).map(|s| s.as_str()) {
        Some("gen") => {
            let n = args.get(3).and_then(|s| s.parse().ok()).unwrap_or(1000);
            let seed = args.get(4).and_then(|s| s.parse().ok()).unwrap_or(1);
            gen_stream(&args[2], n, seed);
        }
        Some("run") => {
            std::panic::set_hook(Box::new(|_| {}));
            let stdin = std::io::stdin(); let out = std::io::stdout(); let mut w = out.lock();
            for line in stdin.lock().lines() {
                let line = line.unwrap();
                let ans = std::panic::catch_unwind(|| run::run_line(&line)).unwrap_or_else(|_| "panic".to_string());
                writeln!(w, "{}", ans).unwrap(); w.flush().unwrap();
            }
        }
        Some("oracle") => {
            let stdin = std::io::stdin(); let out = std::io::stdout(); let mut w = std::io::BufWriter::new(out.lock());
            for line in stdin.lock().lines() { writeln!(w, "{}", oracle::oracle_line(&line.unwrap())).unwrap(); }
        }
        _ => { eprintln!("usage: slacharness gen <stream> <n> <seed> | run"); std::process::exit(2); }
    }
}
