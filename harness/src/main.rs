#![allow(dead_code)]
//! slacharness — the implementation side of the correspondence check.
//!   slacharness gen <stream> <n> <seed>     protocol lines for a stream on stdout
//!   slacharness run                          stdin lines → answers of the real crate (one per line, flushed)
//!   slacharness oracle                       stdin lines → answers of a Rust-side reference (streams that have one)
mod call;
mod codec;
mod env;
mod gen;
mod lang;
mod laws;
mod tree;
mod numrun;
mod oracle;
mod re;
mod rng;
mod script;
mod tables;
mod timerange;
mod run;

use std::io::{BufRead, Write};

fn gen_stream(stream: &str, n: u64, seed: u64) {
    use codec::*;
    let mut r = rng::Rng::new(seed ^ stream.bytes().fold(0u64, |a, b| a.wrapping_mul(131).wrapping_add(b as u64)));
    let out = std::io::stdout(); let mut w = std::io::BufWriter::new(out.lock());
    match stream {
        "cmp" => for _ in 0..n { let lim = |r: &mut rng::Rng| -> slac::Value { match r.below(9) { 0 => slac::Value::String("9223372036854775807".into()), 1 => slac::Value::String("-9223372036854775808".into()), 2 => slac::Value::Number(1e19), 3 => slac::Value::Number(1e30),
                4 => slac::Value::Number(9223372036854775808.0), 5 => slac::Value::Number(-1e19), 6 => slac::Value::Number(-9223372036854775808.0), 7 => slac::Value::String("9007199254740993".into()), _ => slac::Value::Number(9007199254740992.0) } };
            let (a, b) = if r.chance(1, 40) { (lim(&mut r), lim(&mut r)) } else { let a = gen::gen_val(&mut r, 2);
                // 1 in 8 the same value again, 1 in 8 the same value with every member replaced by a LOOSELY equal one (true / 1 / '1', 0 / -0 / false, 5 / '5'; NaN stays)
                let b = match r.below(8) { 0 => a.clone(), 1 => gen::loosen_val(&mut r, &a), _ => gen::gen_val(&mut r, 2) }; (a, b) };
            writeln!(w, "cmp {} {}", show_in(&a), show_in(&b)).unwrap(); },
        "num" => for _ in 0..n { writeln!(w, "{}", numrun::gen_num_line(&mut r)).unwrap(); },
        "evaltable" => { let d = gen::table_env().show(); for i in 0..gen::table_len() { writeln!(w, "eval {} {}", d, show_expr(&gen::table_case(i).unwrap())).unwrap(); } }
        "evalcs" => for _ in 0..n { let d = gen::gen_env(&mut r); let depth = 1 + r.below(3) as u32; let e = gen::gen_tree(&mut r, depth, false); writeln!(w, "evalcs {} {}", d.show(), show_expr(&e)).unwrap(); },
        "eval" | "evalill" => for _ in 0..n { let d = gen::gen_env(&mut r); let depth = 1 + r.below(4) as u32;
            let mut e = gen::gen_tree(&mut r, depth, stream == "evalill"); if r.chance(1, 3) { gen::add_repeats(&mut r, &mut e); } writeln!(w, "eval {} {}", d.show(), show_expr(&e)).unwrap(); },
        "scanfrag" => { // exhaustive fragment sequences up to length n (n = 3 or 4), then nothing random
            for len in 1..=(n as usize) { for i in 0..32u64.pow(len as u32) { writeln!(w, "scan {}", hex(&lang::frag_seq(i, len))).unwrap(); } } }
        // every Unicode scalar value (n >= 1) or the blocks where scripts, numerals and case pairs live (n = 0), 256 code points per request
        "scanchars" => { let blocks: Vec<(u32, u32)> = if n >= 1 { vec![(0, 0x110000)] } else { vec![(0, 0x3400), (0xA000, 0xAC00), (0xF900, 0x11000), (0x1D000, 0x1F000), (0xE0000, 0xE0200)] };
            for (a, b) in blocks { let mut s = a; while s < b { writeln!(w, "scanrange {} 256", s).unwrap(); s += 256; } } }
        // pure builtins on inputs big enough for ONE call to take about two seconds (n families; the regex ones first)
        "slowpure" => for f in ["re_find", "re_replace", "sort", "re_is_match", "split", "replace", "contains", "unique"].iter().take(n as usize) { writeln!(w, "slowpure {}", f).unwrap(); },
        "scan" => for _ in 0..n { writeln!(w, "scan {}", hex(&lang::gen_text(&mut r))).unwrap(); },
        // ONE decimal number literal per case (judged by the model's scanner, proved to yield the nearest double): shortest and long renderings of random
        // doubles, digit strings far longer than 17 significant digits, and texts on / a hair above / a hair below the midpoint of two adjacent doubles
        "numlit" => for _ in 0..n { let x = gen::gen_num(&mut r).abs(); let x = if x.is_finite() { x } else { 1.5 };
            let t = match r.below(6) { 0 | 1 => gen::midpoint_literal(&mut r), 2 => format!("{}", x), 3 => { let mut t = format!("{:.*}", r.usize(60), x); t.truncate(600); t }
                4 => { let n = 18 + r.usize(40); let d: String = (0..n).map(|i| char::from(b'0' + if i == 0 { 1 + r.below(9) } else { r.below(10) } as u8)).collect();
                       match r.below(3) { 0 => d, 1 => { let k = r.usize(n); format!("{}.{}", &d[..k], &d[k..]) } _ => format!(".{}", d) } }
                _ => format!("{}{}", (0..r.usize(30)).map(|_| '0').collect::<String>(), x) };
            let t = if t.contains(|c: char| !(c.is_ascii_digit() || c == '.')) { "1.25".to_string() } else { t };      // exponent forms are not literals of the language
            writeln!(w, "scan {}", hex(&t)).unwrap(); },
        // ONE string literal per case (judged by the model's scanner, proved to denote exactly the contents with '' for one quote)
        "strlit" => for _ in 0..n { let c = match r.below(3) { 0 => r.pick(gen::STRS).to_string(), 1 => gen::gen_str(&mut r),
                _ => { let k = r.usize(7); (0..k).map(|_| *r.pick(&['\\', 'u', '{', '}', '4', '1', '\'', 'n', 'x', '&', '#', ';', '%', '/', ' ', '\n', 'é', '"'])).collect() } };
            writeln!(w, "scan {}", hex(&format!("'{}'", c.replace('\'', "''")))).unwrap(); },
        "compile" => for _ in 0..n { writeln!(w, "compile {}", hex(&lang::gen_text(&mut r))).unwrap(); },
        "compiledeep" => for _ in 0..n {
            let depth = 1 + r.usize(64);
            let mut open = String::new(); let mut close = String::new();
            for _ in 0..depth { match r.below(7) { 0 | 1 => { open.push('('); close.insert(0, ')'); } 2 => { open.push('['); close.insert(0, ']'); }
                3 => { open.push_str("f("); close.insert(0, ')'); } 4 => open.push_str("not "), 5 => open.push('-'), _ => { open.push_str("(1+"); close.insert(0, ')'); } } }
            let mut t = format!("{}{}{}", open, r.pick(&["1", "a", "'s'", "", "true"]), close);
            match r.below(6) { 0 => { let k = r.usize(t.chars().count() + 1); t = t.chars().take(k).collect(); }     // truncation
                1 => { t = format!("{} {}", t, (0..r.below(800)).map(|_| *r.pick(&["+ 1", "* a", "and b", "= 2", "- -1", "or not c", "< 3", "div 2"])).collect::<Vec<_>>().join(" ")); }
                2 => { t = close.clone() + &t; } _ => {} }
            writeln!(w, "compile {}", hex(&t)).unwrap(); },
        "rr" => for _ in 0..n { writeln!(w, "rr {}", hex(&lang::gen_text(&mut r))).unwrap(); },
        "lay" => for _ in 0..n { let (a, b) = lang::gen_layout_pair(&mut r); writeln!(w, "lay {} {}", hex(&a), hex(&b)).unwrap(); },
        "parsekinds" => { let kinds = lang::tok_kinds(); let k = kinds.len() as u64;
            for len in 0..=(n as usize) { for mut i in 0..k.pow(len as u32) { let mut ts = vec![]; for _ in 0..len { ts.push(kinds[(i % k) as usize].clone()); i /= k; }
                writeln!(w, "parse {}", lang::show_tok_line(&ts)).unwrap(); } } }
        "parse" => for _ in 0..n { let len = r.usize(41); let ts = lang::gen_tokens(&mut r, len); writeln!(w, "parse {}", lang::show_tok_line(&ts)).unwrap(); },
        "rt" => { let mut prev: Option<slac::Expression> = None; for _ in 0..n { let d = 1 + r.below(4) as u32;
            // 1 in 8: the PREVIOUS tree again with every literal replaced by a loosely equal one (1 / true, 0 / false): consecutive compilations
            // of look-alike texts on one thread
            let e = match &prev { Some(p) if r.chance(1, 8) => gen::loosen_src_expr(&mut r, p), _ => if r.chance(1, 60) { lang::gen_wide_tree(&mut r) } else { lang::gen_src_tree(&mut r, d) } };
            writeln!(w, "rt {} {}", r.below(6), show_expr(&e)).unwrap(); prev = Some(e); } },
        "opt" | "optill" => for _ in 0..n { let d = gen::gen_env(&mut r); let depth = 1 + r.below(4) as u32;
            let mut e = tree::gen_opt_tree(&mut r, depth, stream == "optill"); if r.chance(1, 3) { gen::add_repeats(&mut r, &mut e); } writeln!(w, "opt {} {}", d.show(), show_expr(&e)).unwrap(); },
        // `vchain:<stream>`: n chains of 4090…10010 levels (round numbers where a depth guard would sit are covered from both sides)
        st if st.starts_with("vchain:") => { let kind = &st[7..]; for i in 0..n {
            let depth = match r.below(5) { 0 => 4090 + r.below(20), 1 => 8185 + r.below(20), 2 => 10000 + r.below(10), 3 => 5000 + r.below(3000), _ => 4097 } as u32;
            let e = gen::gen_vchain_tree(&mut r, depth, i); let d = gen::table_env();
            match kind { "json" => writeln!(w, "json {}", show_expr(&e)).unwrap(), kk => writeln!(w, "{} {} {}", kk, d.show(), show_expr(&e)).unwrap() } } }
        // `wide:<stream>`: ONE list of thousands of small elements per case (n cases): recovered failures per element, or constant elements
        st if st.starts_with("wide:") => { let kind = &st[5..]; for i in 0..n {
            let k = i % 8; let len = match (k, r.below(5)) { (6, 0) => 33334, (6, _) => 34000 + r.usize(8000), (7, _) => 2000 + r.usize(3000), (_, 0) => 4090 + r.usize(20), (_, 1) => 10001 + r.usize(300), (_, 2) => 4200 + r.usize(1000), (_, 3) => 12000, _ => 6000 + r.usize(3000) };
            let e = if kind == "json" && k == 6 { slac::Expression::Literal { value: slac::Value::Array((0..(32760 + r.usize(if i % 16 == 6 { 20 } else { 40000 }))).map(|j| slac::Value::Number(j as f64)).collect()) } }
                    else { gen::gen_wide_tree(&mut r, len, k) }; let d = gen::table_env();
            match kind { "json" => writeln!(w, "json {}", show_expr(&e)).unwrap(), kk => writeln!(w, "{} {} {}", kk, d.show(), show_expr(&e)).unwrap() } } }
        // deep ill-formed trees (nesting 1..=64) for the totality streams: `deep:<stream>`
        st if st.starts_with("chain:") => { let kind = &st[6..]; for _ in 0..n {
            let len = if r.chance(1, 4) { 990 + r.below(30) as u32 } else { 200 + r.below(2300) as u32 };
            let e = gen::gen_chain_tree(&mut r, len); let d = if r.chance(1, 2) { gen::table_env() } else { gen::gen_env(&mut r) };
            writeln!(w, "{} {} {}", kind, d.show(), show_expr(&e)).unwrap(); } }
        st if st.starts_with("deep:") || st.starts_with("vdeep:") || st.starts_with("spine:") => { let vd = st.starts_with("vdeep:"); let sp = st.starts_with("spine:"); let kind = &st[if vd || sp { 6 } else { 5 }..]; for _ in 0..n {
            // spine: regular chains of 1..300 levels, with every multiple of 32 +-1 over-represented (where a depth guard would sit)
            let depth = if sp { if r.chance(1, 3) { (32 * (1 + r.below(9)) + r.below(3)).saturating_sub(1) as u32 } else { 1 + r.below(300) as u32 } } else { 1 + r.below(if vd { 260 } else { 64 }) as u32 };
            let e = if sp { gen::gen_spine_tree(&mut r, depth) } else { gen::gen_deep_tree(&mut r, depth) }; let d = if sp && r.chance(1, 2) { gen::table_env() } else { gen::gen_env(&mut r) };
            match kind { "json" => writeln!(w, "json {}", show_expr(&e)).unwrap(),
                "tcmp" => { let e2 = if r.chance(1, 3) { e.clone() } else { let d2 = 1 + r.below(64) as u32; gen::gen_deep_tree(&mut r, d2) }; writeln!(w, "tcmp {} {}", show_expr(&e), show_expr(&e2)).unwrap() }
                k => writeln!(w, "{} {} {}", k, d.show(), show_expr(&e)).unwrap() } } }
        "chkvf" => for _ in 0..n { let d = gen::gen_env(&mut r); let depth = 1 + r.below(3) as u32;
            let ill = r.chance(1, 4); let mut e = if r.chance(1, 2) { tree::gen_opt_tree(&mut r, depth, false) } else { gen::gen_tree(&mut r, depth, ill) }; if r.chance(1, 4) { gen::add_repeats(&mut r, &mut e); } writeln!(w, "chkvf {} {}", d.show(), show_expr(&e)).unwrap(); },
        "chkbool" => for _ in 0..n { let d = gen::gen_env(&mut r); let depth = 1 + r.below(3) as u32;
            let ill = r.chance(1, 4); let mut e = if r.chance(1, 2) { tree::gen_opt_tree(&mut r, depth, ill) } else { gen::gen_tree(&mut r, depth, ill) }; if r.chance(1, 3) { gen::add_repeats(&mut r, &mut e); } writeln!(w, "chkbool {} {}", d.show(), show_expr(&e)).unwrap(); },
        "json" => for i in 0..n { let depth = r.below(4) as u32;
            if i % 40 == 7 { let mut v = slac::Value::Array(vec![slac::Value::Number(*r.pick(&[f64::NAN, f64::INFINITY, f64::NEG_INFINITY])), slac::Value::Number(2.0)]);
                for _ in 0..r.below(4) { v = slac::Value::Array(if r.chance(1, 2) { vec![v] } else { vec![slac::Value::Boolean(true), v] }); }
                let l = slac::Expression::Literal { value: v };
                let e = if r.chance(1, 2) { l } else { slac::Expression::Array { expressions: vec![l, slac::Expression::Literal { value: slac::Value::Array(vec![]) }] } };
                writeln!(w, "json {}", show_expr(&e)).unwrap(); continue; }
            let e = match r.below(3) { 0 => lang::gen_src_tree(&mut r, depth), 1 => tree::gen_opt_tree(&mut r, depth, true), _ => gen::gen_tree(&mut r, depth, true) };
            writeln!(w, "json {}", show_expr(&e)).unwrap(); },
        // `call` / `call:<name>[,<name>…]`: n argument lists per selected builtin
        st if st == "call" || st.starts_with("call:") || st == "rep" || st.starts_with("rep:") => {
            let (kind, sel) = match st.split_once(':') { Some((k, s)) => (k, Some(s.split(',').map(|x| x.to_string()).collect::<Vec<_>>())), None => (st, None) };
            let names: Vec<String> = call::builtin_names().into_iter().filter(|b| sel.as_ref().map_or(true, |s| s.contains(b))).collect();
            for _ in 0..n { for name in &names { let prefix = if kind == "rep" { "rep 20".to_string() } else { "call".to_string() }; writeln!(w, "{}", call::gen_call_line(&mut r, name, &prefix)).unwrap(); } }
        }
        "re" => for _ in 0..n { writeln!(w, "{}", re::gen_re_line(&mut r)).unwrap(); },
        "nd" => for _ in 0..n { writeln!(w, "{}", call::gen_nd_line(&mut r)).unwrap(); },
        "relaw" => for _ in 0..n { writeln!(w, "{}", re::gen_relaw_line(&mut r)).unwrap(); },
        "ord" => for i in 0..n {
            // chains of NEIGHBOURING doubles (1, 2 and 3 ulps apart, as numbers or as their shortest texts): an "approximately equal" comparison is
            // reflexive and symmetric but not transitive exactly here
            if i % 25 == 7 { let x = match r.below(4) { 0 => 1.0, 1 => 0.1 + 0.2, 2 => (r.below(100000) as f64) / 7.0, _ => gen::gen_num(&mut r) }; let x = if x.is_finite() { x } else { 2.5 };
                let up = |v: f64, k: u64| f64::from_bits(if v >= 0.0 { v.to_bits() + k } else { v.to_bits() - k });
                let mut tri = vec![x, up(x, 1), up(x, if r.chance(1, 2) { 2 } else { 3 })]; if r.chance(1, 2) { tri.reverse(); } if r.chance(1, 4) { tri.swap(0, 1); }
                let val = |r: &mut rng::Rng, v: f64| if r.chance(1, 5) { slac::Value::String(format!("{}", v)) } else { slac::Value::Number(v) };
                writeln!(w, "ord {} {} {}", show_in(&val(&mut r, tri[0])), show_in(&val(&mut r, tri[1])), show_in(&val(&mut r, tri[2]))).unwrap(); continue; }
            if i % 40 == 3 { let p: Vec<slac::Value> = vec![slac::Value::String("9223372036854775807".into()), slac::Value::Number(1e19), slac::Value::Number(1e30), slac::Value::Number(9223372036854775808.0),
                    slac::Value::String("-9223372036854775808".into()), slac::Value::Number(-1e19), slac::Value::Number(3.0)];
                writeln!(w, "ord {} {} {}", show_in(r.pick(&p)), show_in(r.pick(&p)), show_in(r.pick(&p))).unwrap(); continue; }
            let a = gen::gen_val(&mut r, 2); let b = if r.chance(1, 6) { a.clone() } else { gen::gen_val(&mut r, 2) }; let c = if r.chance(1, 6) { b.clone() } else { gen::gen_val(&mut r, 2) };
            writeln!(w, "ord {} {} {}", show_in(&a), show_in(&b), show_in(&c)).unwrap(); },
        // C16: n = 0 → quick sample; n = 1 → everything (all 3 652 059 dates of years 1..9999, all 86 400 000 ms of day)
        "tmrange" => {
            let chunk = 20000i64;
            if n >= 1 { let mut z = -719162i64; while z < 2932897 { writeln!(w, "tmrange d {} {}", z, chunk.min(2932897 - z)).unwrap(); z += chunk; }
                        let mut ms = 0i64; while ms < 86400000 { writeln!(w, "tmrange t {} {}", ms, (100000i64).min(86400000 - ms)).unwrap(); ms += 100000; }
                        for i in 0..200 { writeln!(w, "tmrange c {} 5000", seed.wrapping_mul(1000).wrapping_add(i)).unwrap(); }
                        for i in 0..200 { writeln!(w, "tmrange n {} 5000", seed.wrapping_mul(1000).wrapping_add(i)).unwrap(); }
                        writeln!(w, "tmrange r 0 20000").unwrap(); }
            else { for _ in 0..40 { writeln!(w, "tmrange d {} 2000", (r.below(3652059 - 2000) as i64) - 719162).unwrap(); }
                   for z in [-719162i64, 2932896 - 1999, -1000, 10957 - 1000, 11016 - 500] { writeln!(w, "tmrange d {} 2000", z).unwrap(); }   // year 1, year 9999, 1970, 2000 leap day
                   for _ in 0..40 { writeln!(w, "tmrange t {} 5000", r.below(86400000 - 5000)).unwrap(); }
                   for ms in [0i64, 86400000 - 5000, 3600000 - 2500, 43200000 - 2500] { writeln!(w, "tmrange t {} 5000", ms).unwrap(); }
                   for i in 0..20 { writeln!(w, "tmrange c {} 2000", seed.wrapping_mul(1000).wrapping_add(i)).unwrap(); }
                   for i in 0..20 { writeln!(w, "tmrange n {} 2000", seed.wrapping_mul(1000).wrapping_add(i)).unwrap(); }
                   writeln!(w, "tmrange r 0 2000").unwrap(); } }
        "tmpairs" => for i in 0..n { writeln!(w, "tmrange p {} 500", seed.wrapping_mul(7919).wrapping_add(i)).unwrap(); },
        "mathlaw" => {
            // all code points (chunks), integers around 0 / 2^53 / random, doubles from the boundary pool + random bits
            let mut cp = 0u32; while cp < 0x110000 { writeln!(w, "mathlaw cp {} {}", cp, 4096.min(0x110000 - cp)).unwrap(); cp += 4096; }
            for i in -2000i64..=2000 { writeln!(w, "mathlaw int {}", i).unwrap(); }
            for d in -40i64..=40 { for b in [1i64 << 53, 1 << 52, 1 << 31, 1 << 32, 1 << 62, 1000000] { writeln!(w, "mathlaw int {}", b + d).unwrap(); writeln!(w, "mathlaw int {}", -b + d).unwrap(); } }
            for _ in 0..n { writeln!(w, "mathlaw int {}", (r.next() as i64) >> r.below(64)).unwrap();
                // half of the doubles are ORDINARY decimals (95.97, 141.73, -3.125): where a hand-written shortcut for a library function is off by one ulp
                let ordinary = |r: &mut rng::Rng| (r.below(40_000_000) as f64) / (*r.pick(&[100.0, 1000.0, 7.0, 10000.0, 3.0])) - (if r.chance(1, 4) { 1000.0 } else { 0.0 });
                let x = if r.chance(1, 2) { ordinary(&mut r) } else { gen::gen_num(&mut r) }; let y = match r.below(4) { 0 => ordinary(&mut r), 1 => *r.pick(&[1.0 / 3.0, 0.5, 2.0, 3.0, -1.0, 0.25, 1.5, 2.0 / 3.0, -0.5, 1.0, 0.0]), _ => gen::gen_num(&mut r) };
                writeln!(w, "mathlaw num {:016x} {:016x}", x.to_bits(), y.to_bits()).unwrap(); } }
        "poslaw" => for _ in 0..n {
            let s: String = match r.below(3) { 0 => gen::gen_str(&mut r), _ => { let k = r.below(9); (0..k).map(|_| *r.pick(&['a', 'b', 'ä', 'ß', '𝄞', 'c', ' ', 'e', '\u{301}', 'Σ', '1'])).collect() } };
            let cs: Vec<char> = s.chars().collect();
            let x: String = if r.chance(2, 3) && !cs.is_empty() { let a = r.usize(cs.len()); let b = a + r.usize(cs.len() - a + 1); cs[a..b].iter().collect() } else { (0..r.below(3)).map(|_| *r.pick(&['a', 'ä', 'z', '𝄞'])).collect() };
            writeln!(w, "poslaw {} {}", hex(&s), hex(&x)).unwrap(); },
        "sortlaw" => for _ in 0..n { let args = call::gen_args(&mut r, "sort"); if let Some(a @ slac::Value::Array(_)) = args.first() { writeln!(w, "sortlaw {}", show_in(a)).unwrap(); } },
        "jsonin" => for _ in 0..n { let depth = r.below(3) as u32; let e = if r.chance(1, 2) { lang::gen_src_tree(&mut r, depth) } else { gen::gen_tree(&mut r, depth, true) };
            let text = serde_json::to_string(&e).unwrap_or_default();
            writeln!(w, "jsonin {}", hex(&tree::respell_numbers(&mut r, &text))).unwrap(); },
        // `pairs:<names>`: scripts `[f(args), f(args')]` where args' are only LOOSELY equal to args (1 / true / '1', 0 / -0): two look-alike calls of one builtin in one execute
        st if st.starts_with("pairs:") => { let names: Vec<&str> = st[6..].split(',').collect(); for _ in 0..n { for name in &names { writeln!(w, "{}", script::gen_pair_line(&mut r, name)).unwrap(); } } }
        "script" => for _ in 0..n { writeln!(w, "{}", script::gen_script_line(&mut r)).unwrap(); },
        "dcall" => { let bs = slac::stdlib::builtins(); for _ in 0..n { for f in &bs { writeln!(w, "{}", call::gen_dcall_line(&mut r, f)).unwrap(); } } }
        "env" => for _ in 0..n { let big = r.chance(1, 10); let len = 1 + r.usize(if big { 200 } else { 20 }); let wide = r.chance(1, 2); writeln!(w, "{}", tree::gen_env_line(&mut r, len, wide)).unwrap(); },
        "envex" => { let a = tree::env_alphabet().len() as u64; for len in 1..=(n as usize) { for i in 0..a.pow(len as u32) { writeln!(w, "{}", tree::env_exhaustive(i, len)).unwrap(); } } }
        _ => { eprintln!("unknown stream {stream}"); std::process::exit(2); }
    }
}

/// Dump Rust's Unicode character database (std) as Lean source: ranges of alphabetic / numeric / White_Space code
/// points and the non-identity lower/upper case mappings.  Regenerate with
/// `slacharness unicode-tables > /verif/lean/SlacModel/UnicodeTables.lean` when the Rust toolchain changes.
fn unicode_tables() {
    fn ranges(p: impl Fn(char) -> bool) -> Vec<(u32, u32)> {
        let mut out: Vec<(u32, u32)> = vec![]; let mut start: Option<u32> = None;
        for cp in 0..=0x110000u32 {
            let on = char::from_u32(cp).map_or(false, |c| p(c));
            match (on, start) { (true, None) => start = Some(cp), (false, Some(s)) => { out.push((s, cp - 1)); start = None; } _ => {} }
        }
        out
    }
    fn show_ranges(name: &str, r: &[(u32, u32)]) {
        println!("def {} : Array (Nat × Nat) := #[", name);
        for ch in r.chunks(8) { println!("  {},", ch.iter().map(|(a, b)| format!("({},{})", a, b)).collect::<Vec<_>>().join(", ")); }
        println!("  (1114112,1114112)]\n");
    }
    println!("/-\n  SlacModel.UnicodeTables — GENERATED by `slacharness unicode-tables` from the Rust standard library's Unicode\n  tables (char::is_alphabetic, is_numeric, is_whitespace, to_lowercase, to_uppercase). Data, not logic.\n-/");
    println!("set_option autoImplicit false\nset_option maxRecDepth 1000000\nnamespace Slac\nnamespace UnicodeTables\n");
    show_ranges("alphabetic", &ranges(|c| c.is_alphabetic()));
    show_ranges("numeric", &ranges(|c| c.is_numeric()));
    show_ranges("whitespace", &ranges(|c| c.is_whitespace()));
    for (name, f) in [("lowerMap", (|c: char| c.to_lowercase().collect::<Vec<char>>()) as fn(char) -> Vec<char>), ("upperMap", |c: char| c.to_uppercase().collect::<Vec<char>>())] {
        println!("/-- (code point, mapped code points) for every character whose mapping is not the identity -/");
        println!("def {} : Array (Nat × List Nat) := #[", name);
        let mut items = vec![];
        for cp in 0..0x110000u32 { if let Some(c) = char::from_u32(cp) { let m = f(c); if m != vec![c] { items.push(format!("({},[{}])", cp, m.iter().map(|x| (*x as u32).to_string()).collect::<Vec<_>>().join(","))); } } }
        for ch in items.chunks(6) { println!("  {},", ch.join(", ")); }
        println!("  (1114112,[])]\n");
    }
    // Final_Sigma needs Case_Ignorable and Cased, which std does not export: recover them by probing to_lowercase.
    //   x ignorable:            "aΣxa" ↦ …σ…, "aΣx" ↦ …ς…      x cased (not ignorable): both σ      neither: both ς
    let probe = |x: char| -> (bool, bool) {
        let s1: String = ['a', 'Σ', x, 'a'].iter().collect(); let s2: String = ['a', 'Σ', x].iter().collect();
        (s1.to_lowercase().chars().nth(1) == Some('σ'), s2.to_lowercase().chars().nth(1) == Some('σ'))
    };
    println!("/-- Case_Ignorable (recovered by probing `str::to_lowercase` around Σ) -/");
    show_ranges("caseIgnorable", &ranges(|c| c != 'Σ' && probe(c) == (true, false)));
    println!("/-- Cased and not Case_Ignorable -/");
    show_ranges("casedNotIgnorable", &ranges(|c| c == 'Σ' || probe(c) == (true, true)));
    // `Debug for str`: characters written as `\\u{…}` (not printable, or Grapheme_Extend), recovered by formatting each char
    println!("/-- characters that `Debug for str` writes as a `\\u{{…}}` escape -/");
    show_ranges("debugUnicodeEscaped", &ranges(|c| format!("{:?}", c.to_string()).starts_with("\"\\u{")));
    println!("end UnicodeTables\nend Slac");
}

fn main() {
    let args: Vec<String> = std::env::args().collect();
    match args.get(1).map(|s| s.as_str()) {
        Some("gen") => {
            let n = args.get(3).and_then(|s| s.parse().ok()).unwrap_or(1000);
            let seed = args.get(4).and_then(|s| s.parse().ok()).unwrap_or(1);
            gen_stream(&args[2], n, seed);
        }
        Some("run") => {
            std::panic::set_hook(Box::new(|_| {}));
            let stdin = std::io::stdin(); let out = std::io::stdout(); let mut w = out.lock();
            for line in stdin.lock().lines() {
                let line = line.unwrap();
                let ans = std::panic::catch_unwind(|| run::run_line(&line)).unwrap_or_else(|_| "panic".to_string());
                writeln!(w, "{}", ans).unwrap(); w.flush().unwrap();
            }
        }
        Some("unicode-tables") => unicode_tables(),
        // the individual `scan` requests behind one `scanrange <start> <cnt>` request (to pin a digest mismatch to one input)
        Some("expand-scanrange") => {
            let start: u32 = args[2].parse().unwrap(); let cnt: u32 = args[3].parse().unwrap();
            let out = std::io::stdout(); let mut w = std::io::BufWriter::new(out.lock());
            for cp in start..start + cnt { if let Some(c) = char::from_u32(cp) { for (text, _) in lang::scan_contexts(c) { writeln!(w, "scan {}", codec::hex(&text)).unwrap(); } } }
        }
        Some("builtins-table") => tables::builtins_table(),
        Some("dispatch-table") => tables::dispatch_table(),
        Some("oracle") => {
            let stdin = std::io::stdin(); let out = std::io::stdout(); let mut w = std::io::BufWriter::new(out.lock());
            for line in stdin.lock().lines() { writeln!(w, "{}", oracle::oracle_line(&line.unwrap())).unwrap(); }
        }
        _ => { eprintln!("usage: slacharness gen <stream> <n> <seed> | run"); std::process::exit(2); }
    }
}
