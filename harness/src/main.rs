#![allow(dead_code)]
//! slacharness — the implementation side of the correspondence check.
//!   slacharness gen <stream> <n> <seed>     protocol lines for a stream on stdout
//!   slacharness run                          stdin lines → answers of the real crate (one per line, flushed)
//!   slacharness oracle                       stdin lines → answers of a Rust-side reference (streams that have one)
mod codec;
mod env;
mod gen;
mod numrun;
mod rng;
mod run;

use std::io::{BufRead, Write};

fn gen_stream(stream: &str, n: u64, seed: u64) {
    use codec::*;
    let mut r = rng::Rng::new(seed ^ stream.bytes().fold(0u64, |a, b| a.wrapping_mul(131).wrapping_add(b as u64)));
    let out = std::io::stdout(); let mut w = std::io::BufWriter::new(out.lock());
    match stream {
        "cmp" => for _ in 0..n { let a = gen::gen_val(&mut r, 2); let b = if r.chance(1, 8) { a.clone() } else { gen::gen_val(&mut r, 2) };
            writeln!(w, "cmp {} {}", show_in(&a), show_in(&b)).unwrap(); },
        "num" => for _ in 0..n { writeln!(w, "{}", numrun::gen_num_line(&mut r)).unwrap(); },
        "evaltable" => { let d = gen::table_env().show(); for i in 0..gen::table_len() { writeln!(w, "eval {} {}", d, show_expr(&gen::table_case(i).unwrap())).unwrap(); } }
        "eval" | "evalill" => for _ in 0..n { let d = gen::gen_env(&mut r); let depth = 1 + r.below(4) as u32;
            let e = gen::gen_tree(&mut r, depth, stream == "evalill"); writeln!(w, "eval {} {}", d.show(), show_expr(&e)).unwrap(); },
        _ => { eprintln!("unknown stream {stream}"); std::process::exit(2); }
    }
}

fn main() {
    let args: Vec<String> = std::env::args().collect();
    match args.get(1).map(|s| s.as_str()) {
        Some("gen") => {
            let n = args.get(3).and_then(|s| s.parse().ok()).unwrap_or(1000);
            let seed = args.get(4).and_then(|s| s.parse().ok()).unwrap_or(1);
            gen_stream(&args[2], n, seed);
        }
        Some("run") => {
            std::panic::set_hook(Box::new(|_| {}));
            let stdin = std::io::stdin(); let out = std::io::stdout(); let mut w = out.lock();
            for line in stdin.lock().lines() {
                let line = line.unwrap();
                let ans = std::panic::catch_unwind(|| run::run_line(&line)).unwrap_or_else(|_| "panic".to_string());
                writeln!(w, "{}", ans).unwrap(); w.flush().unwrap();
            }
        }
        _ => { eprintln!("usage: slacharness gen <stream> <n> <seed> | run"); std::process::exit(2); }
    }
}
