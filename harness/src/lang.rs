//! scan / parse / compile / rt (render round trip) streams: executors and generators.
use crate::codec::*;
use crate::gen::*;
use crate::rng::Rng;
use slac::{compile, Compiler, Error, Expression as E, Operator as O, Scanner, Token as T, Value as V};

// ---------------------------------------------------------------- tokens
const TOK_NAMES: [(&str, T); 21] = [("(", T::LeftParen), (")", T::RightParen), ("[", T::LeftBracket), ("]", T::RightBracket),
    ("+", T::Plus), ("-", T::Minus), ("*", T::Star), ("/", T::Slash), (",", T::Comma), (">", T::Greater), (">=", T::GreaterEqual),
    ("<", T::Less), ("<=", T::LessEqual), ("=", T::Equal), ("<>", T::NotEqual), ("and", T::And), ("or", T::Or), ("xor", T::Xor),
    ("not", T::Not), ("div", T::Div), ("mod", T::Mod)];

pub fn show_tok(t: &T, out: bool) -> String {
    match t {
        T::Literal(v) => format!("# {}", if out { show(v) } else { show_in(v) }),
        T::Identifier(n) => format!("@{}", hex(n)),
        _ => TOK_NAMES.iter().find(|(_, k)| k == t).map(|(n, _)| n.to_string()).unwrap(),
    }
}
pub fn parse_tok(t: &mut Toks) -> Option<T> {
    let s = t.next()?;
    if s == "#" { return Some(T::Literal(t.value()?)); }
    if let Some(h) = s.strip_prefix('@') { return Some(T::Identifier(unhex(h)?)); }
    TOK_NAMES.iter().find(|(n, _)| *n == s).map(|(_, k)| k.clone())
}
fn show_toks(ts: &[T], out: bool) -> String { if ts.is_empty() { "-".into() } else { ts.iter().map(|t| show_tok(t, out)).collect::<Vec<_>>().join(" ") } }

fn cerr(e: &Error) -> String { show_err(e) }

pub fn run_scan(t: &mut Toks) -> Option<String> {
    let src = t.name()?;
    Some(match Scanner::tokenize(&src) { Ok(ts) => format!("ok {}", show_toks(&ts, true)), Err(e) => format!("err {}", cerr(&e)) })
}
pub fn run_parse(t: &mut Toks) -> Option<String> {
    let mut ts = vec![];
    while t.peek().is_some() { ts.push(parse_tok(t)?); }
    Some(match Compiler::compile_ast(ts) { Ok(e) => format!("ok {}", show_expr_out(&e)), Err(e) => format!("err {}", cerr(&e)) })
}
pub fn run_compile(t: &mut Toks) -> Option<String> {
    let src = t.name()?;
    Some(match compile(&src) { Ok(e) => format!("ok {}", show_expr_out(&e)), Err(e) => format!("err {}", cerr(&e)) })
}

// ---------------------------------------------------------------- rendering (harness-side; the C01 falsifier)
fn lvl(e: &E) -> u32 {
    match e {
        E::Binary { operator, .. } => match operator {
            O::Or => 1, O::And => 2, O::Xor => 3, O::Equal | O::NotEqual => 4,
            O::Greater | O::GreaterEqual | O::Less | O::LessEqual => 5, O::Plus | O::Minus => 6, _ => 7 },
        E::Unary { .. } => 8,
        _ => 10,
    }
}
fn op_text(o: O) -> &'static str {
    match o { O::Plus => "+", O::Minus => "-", O::Multiply => "*", O::Divide => "/", O::Greater => ">", O::GreaterEqual => ">=",
        O::Less => "<", O::LessEqual => "<=", O::Equal => "=", O::NotEqual => "<>", O::And => "and", O::Or => "or", O::Xor => "xor",
        O::Not => "not", O::Div => "div", O::Mod => "mod", O::TernaryCondition => "?" }
}
pub fn lit_text(v: &V) -> String {
    match v {
        V::Boolean(b) => b.to_string(),
        V::Number(x) => format!("{}", x),
        V::String(s) => format!("'{}'", s.replace('\'', "''")),
        V::Array(_) => "[]".into(),
    }
}
/// style 0 = minimal parentheses, 1 = fully parenthesised, >=2 = minimal plus pseudo-random extra parentheses
pub fn render(e: &E, q: u32, style: u64, salt: &mut u64, out: &mut Vec<String>) {
    let extra = match style { 0 => false, 1 => !matches!(e, E::Literal { .. } | E::Variable { .. }), _ => { *salt = salt.wrapping_mul(6364136223846793005).wrapping_add(style); (*salt >> 33) % 4 == 0 } };
    let need = lvl(e) < q;
    let paren = need || extra;
    if paren { out.push("(".into()); }
    let extra2 = style >= 2 && paren && (*salt >> 40) % 5 == 0;
    if extra2 { out.push("(".into()); }
    match e {
        E::Literal { value } => out.push(lit_text(value)),
        E::Variable { name } => out.push(name.clone()),
        E::Unary { right, operator } => { out.push(op_text(*operator).into()); render(right, 8, style, salt, out); }
        E::Binary { left, right, operator } => {
            let p = lvl(e);
            render(left, p, style, salt, out); out.push(op_text(*operator).into()); render(right, p + 1, style, salt, out);
        }
        E::Array { expressions } => { out.push("[".into()); for (i, x) in expressions.iter().enumerate() { if i > 0 { out.push(",".into()); } render(x, 1, style, salt, out); } out.push("]".into()); }
        E::Call { name, params } => { out.push(name.clone()); out.push("(".into()); for (i, x) in params.iter().enumerate() { if i > 0 { out.push(",".into()); } render(x, 1, style, salt, out); } out.push(")".into()); }
        E::Ternary { .. } => out.push("?".into()),
    }
    if extra2 { out.push(")".into()); }
    if paren { out.push(")".into()); }
}
pub fn render_text(e: &E, style: u64) -> String { let mut out = vec![]; let mut salt = style; render(e, 1, style, &mut salt, &mut out); out.join(" ") }

/// bit-exact structural comparison (derived PartialEq says 1 = '1' and NaN != NaN)
pub fn same_val(a: &V, b: &V) -> bool {
    match (a, b) {
        (V::Boolean(x), V::Boolean(y)) => x == y,
        (V::Number(x), V::Number(y)) => x.to_bits() == y.to_bits() || (x.is_nan() && y.is_nan()),
        (V::String(x), V::String(y)) => x == y,
        (V::Array(x), V::Array(y)) => x.len() == y.len() && x.iter().zip(y).all(|(p, q)| same_val(p, q)),
        _ => false,
    }
}
pub fn same_expr(a: &E, b: &E) -> bool {
    match (a, b) {
        (E::Literal { value: x }, E::Literal { value: y }) => same_val(x, y),
        (E::Variable { name: x }, E::Variable { name: y }) => x == y,
        (E::Unary { right: r1, operator: o1 }, E::Unary { right: r2, operator: o2 }) => o1 == o2 && same_expr(r1, r2),
        (E::Binary { left: l1, right: r1, operator: o1 }, E::Binary { left: l2, right: r2, operator: o2 }) => o1 == o2 && same_expr(l1, l2) && same_expr(r1, r2),
        (E::Ternary { left: l1, middle: m1, right: r1, operator: o1 }, E::Ternary { left: l2, middle: m2, right: r2, operator: o2 }) =>
            o1 == o2 && same_expr(l1, l2) && same_expr(m1, m2) && same_expr(r1, r2),
        (E::Array { expressions: x }, E::Array { expressions: y }) => x.len() == y.len() && x.iter().zip(y).all(|(p, q)| same_expr(p, q)),
        (E::Call { name: n1, params: x }, E::Call { name: n2, params: y }) => n1 == n2 && x.len() == y.len() && x.iter().zip(y).all(|(p, q)| same_expr(p, q)),
        _ => false,
    }
}

/// `rt <style> <expr>`: render, compile, compare. Answer `same` iff the round trip reproduces the tree.
pub fn run_rt(t: &mut Toks) -> Option<String> {
    let style: u64 = t.next()?.parse().ok()?; let e = t.expr()?;
    let text = render_text(&e, style);
    Some(match compile(&text) {
        Ok(e2) => if same_expr(&e, &e2) { "same".into() } else { format!("differs {}", show_expr_out(&e2)) },
        Err(err) => format!("err {}", cerr(&err)),
    })
}
/// `rr <hexsrc>`: converse direction. If the text compiles, re-render minimally and recompile: `same`, else `reject`.
pub fn run_rr(t: &mut Toks) -> Option<String> {
    let src = t.name()?;
    Some(match compile(&src) {
        Err(_) => "reject".into(),
        Ok(e) => match compile(&render_text(&e, 0)) {
            Ok(e2) => if same_expr(&e, &e2) { "same".into() } else { format!("differs {}", show_expr_out(&e2)) },
            Err(err) => format!("err {}", cerr(&err)),
        },
    })
}

// ---------------------------------------------------------------- generators
pub const FRAGS: [&str; 32] = ["1", "23", ".", "a", "B_", "true", "And", "oR", "not", "div", "'", "''", "'x'", "{", "}", "//", "\n", " ",
    "\t", "(", ")", "[", "]", ",", "+", "-", "*", "/", "<", ">", "=", "é"];
pub const EXTRA_FRAGS: [&str; 8] = ["#", "٣", "xor", "mod", "false", "\r", "1.5", "_"];

pub fn frag_seq(mut i: u64, len: usize) -> String {
    let mut s = String::new();
    for _ in 0..len { s.push_str(FRAGS[(i % 32) as usize]); i /= 32; }
    s
}
pub fn tok_kinds() -> Vec<T> {
    let mut v: Vec<T> = TOK_NAMES.iter().map(|(_, k)| k.clone()).collect();
    v.push(T::Literal(V::Number(1.0))); v.push(T::Identifier("f".into()));
    v
}

/// a random source-expressible tree (C01's domain)
pub fn gen_src_tree(r: &mut Rng, depth: u32) -> E {
    if depth == 0 || r.chance(1, 4) {
        return match r.below(6) {
            0 => E::Literal { value: V::Boolean(r.chance(1, 2)) },
            1 => E::Literal { value: V::Number(match r.below(4) { 0 => r.below(100) as f64, 1 => (r.below(100000) as f64) / 64.0, 2 => f64::from_bits(r.next() >> 2).abs(), _ => *r.pick(&[0.0, 0.5, 1e21, 1e-7, 5e-324, 1.7976931348623157e308, 0.1, 123456789.125]) }) },
            2 => E::Literal { value: V::String(gen_str(r)) },
            _ => E::Variable { name: (*r.pick(&["a", "b", "x1", "_y", "Zed", "é", "trueish", "android", "nota", "Ⅷa", "ᛮ", "ǅ", "ªb", "x²", "dıv", "falſe", "K", "ﬁn", "ß1", "日本"])).to_string() },
        }.fix_num();
    }
    let d = depth - 1;
    match r.below(10) {
        0 | 1 => E::Unary { right: Box::new(gen_src_tree(r, d)), operator: *r.pick(&UNOPS) },
        2..=6 => E::Binary { left: Box::new(gen_src_tree(r, d)), right: Box::new(gen_src_tree(r, d)), operator: *r.pick(&BINOPS) },
        7 => { let n = r.below(4); E::Array { expressions: (0..n).map(|_| gen_src_tree(r, d)).collect() } }
        _ => { let n = r.below(4); E::Call { name: { let own = r.chance(1, 2); (*r.pick(if own { &["f", "max", "if_then", "G_1"] } else { CALL_NAMES })).to_string() }, params: (0..n).map(|_| gen_src_tree(r, d)).collect() } }
    }
}
/// names a script author coming from Delphi / Excel / SQL / JavaScript would type for a function, and the crate's own names in other
/// letter cases: a compiler or validator that special-cases a NAME (an alias table, a rewrite of a well-known call) meets it here with
/// zero to three arguments
pub const CALL_NAMES: &[&str] = &["pos", "Pos", "POS", "IntToStr", "StrToInt", "StrToFloat", "FloatToStr", "SameText", "IncMonth", "Copy", "Length", "UpperCase", "LowerCase",
    "Trim", "Now", "Date", "Ord", "Chr", "Abs", "Round", "Trunc", "Frac", "iif", "IIF", "len", "Len", "substr", "substring", "mid", "left", "right", "now", "today", "isnull",
    "coalesce", "nvl", "concat", "format", "sum", "avg", "count", "min", "Max", "MIN", "If_Then", "ifthen", "indexOf", "replace", "Replace", "split", "join", "contains",
    "length", "at", "copy", "insert", "find", "reverse", "unique", "sort", "str", "float", "int", "bool", "date", "time", "year", "random", "choice", "re_find", "lowercase"];
/// a WIDE source-expressible tree: a long operator chain or a long list whose items include many empty lists, zero-argument calls
/// and parenthesised groups (anything the parser counts, opens or closes is repeated hundreds of times at nesting depth 1-2)
pub fn gen_wide_tree(r: &mut Rng) -> E {
    let n = 2 + r.usize(400);
    let item = |r: &mut Rng| -> E { match r.below(8) {
        0 | 1 => E::Array { expressions: vec![] },
        2 | 3 => E::Call { name: (*r.pick(&["f", "now", "G_1"])).to_string(), params: vec![] },
        4 => E::Binary { left: Box::new(gen_src_tree(r, 0)), right: Box::new(gen_src_tree(r, 0)), operator: *r.pick(&BINOPS) },
        5 => E::Array { expressions: vec![E::Array { expressions: vec![] }, gen_src_tree(r, 0)] },
        6 => E::Unary { right: Box::new(gen_src_tree(r, 0)), operator: *r.pick(&UNOPS) },
        _ => gen_src_tree(r, 1) } };
    match r.below(3) {
        0 => E::Array { expressions: (0..n).map(|_| item(r)).collect() },
        1 => E::Call { name: "max".into(), params: (0..n).map(|_| item(r)).collect() },
        _ => { let mut e = item(r); for _ in 0..n { let op = *r.pick(&BINOPS); e = if r.chance(1, 8) { E::Binary { left: Box::new(item(r)), right: Box::new(e), operator: op } } else { E::Binary { left: Box::new(e), right: Box::new(item(r)), operator: op } }; } e }
    }
}
trait FixNum { fn fix_num(self) -> Self; }
impl FixNum for E {
    fn fix_num(self) -> Self {
        match self { E::Literal { value: V::Number(x) } if !x.is_finite() || x.is_sign_negative() => E::Literal { value: V::Number(1.0) }, o => o }
    }
}

fn rand_sep(r: &mut Rng) -> String {
    match r.below(11) {
        0 => " ".into(), 1 => "\t".into(), 2 => "\r\n".into(), 3 => "  \n ".into(),
        4 => "{ c }".into(), 5 => "{ a { nested } 'q' // }".into(), 6 => "// line ' { \n".into(), 7 => " {}{}\t".into(),
        // non-ASCII inside comments (multi-byte characters must not disturb the cursor)
        8 => "{größe €}".into(), 9 => "// ∑ commentaire é\n".into(), _ => "{日本{語}}".into(),
    }
}
fn rand_case(r: &mut Rng, s: &str) -> String { s.chars().map(|c| if r.chance(1, 2) { c.to_ascii_uppercase() } else { c.to_ascii_lowercase() }).collect() }

/// layout variants of one token sequence: the C02 falsifier generates a base text and a variant with different
/// separators/comments/keyword case; both must tokenize identically.
pub fn gen_layout_pair(r: &mut Rng) -> (String, String) {
    let dd = 1 + r.below(3) as u32; let e = gen_src_tree(r, dd);
    let mut words = vec![]; let mut salt = 0; let st = r.below(3); render(&e, 1, st, &mut salt, &mut words);
    let base = words.join(" ");
    let mut var = String::new();
    if r.chance(1, 2) { var.push_str(&rand_sep(r)); }
    for w in &words {
        let lw = w.to_lowercase();
        let w2 = if ["and", "or", "xor", "not", "div", "mod", "true", "false"].contains(&lw.as_str()) && !w.starts_with('\'') { rand_case(r, w) } else { w.clone() };
        var.push_str(&w2);
        // a `//` comment directly after the token `/` would read as `///…`: that is not "a comment between tokens"
        let k = 1 + r.below(2); for j in 0..k { let sep = rand_sep(r); if j == 0 && w2 == "/" && sep.starts_with('/') { var.push(' '); } var.push_str(&sep); }
    }
    (base, var)
}
/// `lay <hexbase> <hexvariant>` → tokens of both are bit-identical: `same <n>` / `differs`
pub fn run_lay(t: &mut Toks) -> Option<String> {
    let a = t.name()?; let b = t.name()?;
    let (ta, tb) = (Scanner::tokenize(&a), Scanner::tokenize(&b));
    Some(match (ta, tb) {
        (Ok(x), Ok(y)) => if show_toks(&x, false) == show_toks(&y, false) { "same".to_string() } else { "differs".into() },
        (Err(e1), Err(e2)) => if cerr(&e1) == cerr(&e2) { "same".to_string() } else { "differs".into() },
        _ => "differs".into(),
    })
}

pub fn gen_text(r: &mut Rng) -> String {
    match r.below(10) {
        0..=3 => { let (a, b) = gen_layout_pair(r); if r.chance(1, 2) { a } else { b } }
        4 => { let n = 1 + r.below(8); (0..n).map(|_| if r.chance(1, 6) { *r.pick(&EXTRA_FRAGS) } else { *r.pick(&FRAGS) }).collect() }
        5 => { let x = gen_num(r).abs(); match r.below(4) { 0 => format!("{}", x), 1 => format!("{:.*}", r.below(30) as usize, x), 2 => format!("{}.", x.trunc()), _ => format!(".{}", r.below(1000000)) } }
        6 => format!("'{}'", gen_str(r).replace('\'', "''")),
        7 => { let (a, _) = gen_layout_pair(r); let n = a.chars().count(); let k = r.usize(n + 1); a.chars().take(k).collect() }   // truncation
        8 => { let (a, _) = gen_layout_pair(r); let mut cs: Vec<char> = a.chars().collect(); if !cs.is_empty() { let k = r.usize(cs.len()); cs[k] = *r.pick(&['(', ')', '\'', '{', '}', '-', ',', '[', ']', '.', '#', ' ']); } cs.into_iter().collect() }
        // number soup: runs of numeric characters of every script (fullwidth, Arabic-Indic, Devanagari, superscripts, Roman numerals), 1-40 of them
        9 if r.chance(1, 2) => { let big = r.chance(1, 3); let n = 1 + r.below(if big { 40 } else { 8 }); let pool: &[char] = match r.below(3) { 0 => &['1', '１', '٣', '५', '0', '.'], 1 => &['１', '２', '３', '４', '５', '６'], _ => &['7', '8', '.', '²', 'Ⅷ', '〇', '٣', '9', '๓'] };
            let t: String = (0..n).map(|_| *r.pick(pool)).collect(); if r.chance(1, 3) { format!("a + {} * 2", t) } else { t } }
        _ => { let n = r.below(12); (0..n).map(|_| char::from_u32(match r.below(4) { 0 => r.below(128) as u32, 1 => 0xA0 + r.below(0x260) as u32, 2 => 0x4E00 + r.below(100) as u32, _ => 0x1F600 + r.below(50) as u32 }).unwrap_or('x')).collect() }
    }
}
pub fn gen_tokens(r: &mut Rng, n: usize) -> Vec<T> {
    let kinds = tok_kinds();
    (0..n).map(|_| match r.below(8) {
        0 => T::Literal(gen_small_val(r)),
        1 => { let own = r.chance(2, 3); T::Identifier((*r.pick(if own { &["a", "f", "if_then", "B"] } else { CALL_NAMES })).to_string()) }
        _ => r.pick(&kinds).clone(),
    }).collect()
}
pub fn show_tok_line(ts: &[T]) -> String { ts.iter().map(|t| show_tok(t, false)).collect::<Vec<_>>().join(" ") }

/// `scanrange <start> <cnt>` (stream scanchars): EVERY Unicode scalar value of the range is tokenized in 7 positions
/// (alone, after/before an identifier letter, after a digit, after `1.`, inside a string, twice) and substituted at every
/// position of every keyword (lower and upper case); answers the number of law violations on the crate's own answers
/// and an FNV-1a digest of all answers, which the model recomputes.
pub const KEYWORDS: [&str; 8] = ["and", "or", "xor", "not", "div", "mod", "true", "false"];
pub fn scan_contexts(c: char) -> Vec<(String, Option<(usize, char)>)> {
    let mut v: Vec<(String, Option<(usize, char)>)> = vec![(c.to_string(), None), (format!("a{c}"), None), (format!("{c}a"), None), (format!("1{c}"), None),
        (format!("1.{c}"), None), (format!("'{c}'"), None), (format!("{c} {c}"), None)];
    for kw in KEYWORDS { for up in [false, true] {
        let base: Vec<char> = kw.chars().map(|x| if up { x.to_ascii_uppercase() } else { x }).collect();
        for i in 0..base.len() { let mut b = base.clone(); b[i] = c; v.push((b.iter().collect(), Some((i, kw.chars().nth(i).unwrap())))); }
    } }
    v
}
pub fn fnv(mut d: u64, s: &str) -> u64 { for b in s.bytes() { d = (d ^ b as u64).wrapping_mul(0x100000001B3); } d }
pub fn run_scanrange(t: &mut Toks) -> Option<String> {
    let start: u32 = t.next()?.parse().ok()?; let cnt: u32 = t.next()?.parse().ok()?;
    let mut viol = 0u64; let mut digest = 0xcbf29ce484222325u64; let mut first: Option<String> = None;
    for cp in start..start + cnt {
        let Some(c) = char::from_u32(cp) else { continue };
        for (text, kw) in scan_contexts(c) {
            let r = Scanner::tokenize(&text);
            let ans = match &r { Ok(ts) => format!("ok {}", show_toks(ts, true)), Err(e) => format!("err {}", cerr(e)) };
            digest = fnv(digest, &ans);
            let mut bad: Option<&str> = None;
            if let Ok(ts) = &r {
                // an identifier keeps its exact spelling
                if let [T::Identifier(s)] = ts.as_slice() { if *s != text && text.chars().all(|x| x.is_alphanumeric() || x == '_') { bad = Some("identifier does not keep its exact spelling"); } }
                // a word that differs from a keyword in one letter (beyond ASCII case) is not that keyword
                if let Some((_, orig)) = kw { if c.to_ascii_lowercase() != orig && (c.is_alphanumeric() || c == '_') && ts.len() == 1 && !matches!(ts[0], T::Identifier(_)) && !matches!(ts[0], T::Literal(V::Number(_))) { bad = Some("a non-keyword spelling is read as a keyword"); } }
            }
            if let Some(b) = bad { viol += 1; if first.is_none() { first = Some(format!("{b}: tokenize({text:?}) = {ans}")); } }
        }
    }
    Some(format!("viol {} digest {:016x}{}", viol, digest, first.map(|f| format!(" first {}", hex(&f))).unwrap_or_default()))
}
