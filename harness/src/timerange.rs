//! `tmrange` stream (C16): whole ranges of dates / milliseconds of day / date-time combinations evaluated inside one
//! request, answering the number of property violations found on the crate and a digest of the encoded numbers
//! (so that the model can be compared over 3.65 M dates and 86.4 M milliseconds without 90 M protocol lines).
use crate::codec::*;
use slac::stdlib::time as t;
use slac::Value as V;

/// proleptic Gregorian civil date of a day number (days since 1970-01-01) — the harness's own arithmetic, not chrono's
fn civil(z: i64) -> (i64, u32, u32) {
    let z = z + 719468; let era = z.div_euclid(146097); let doe = z.rem_euclid(146097);
    let yoe = (doe - doe / 1460 + doe / 36524 - doe / 146096) / 365;
    let y = yoe + era * 400; let doy = doe - (365 * yoe + yoe / 4 - yoe / 100); let mp = (5 * doy + 2) / 153;
    let d = (doy - (153 * mp + 2) / 5 + 1) as u32; let m = if mp < 10 { mp + 3 } else { mp - 9 } as u32;
    (if m <= 2 { y + 1 } else { y }, m, d)
}
fn days_from_civil(y: i64, m: u32, d: u32) -> i64 {
    let y = if m <= 2 { y - 1 } else { y }; let era = y.div_euclid(400); let yoe = y.rem_euclid(400);
    let mp = (m as i64 + 9) % 12; let doy = (153 * mp + 2) / 5 + d as i64 - 1; let doe = yoe * 365 + yoe / 4 - yoe / 100 + doy;
    era * 146097 + doe - 719468
}
fn num(r: Result<V, slac::stdlib::NativeError>) -> Option<f64> { match r { Ok(V::Number(x)) => Some(x), _ => None } }
fn n(x: f64) -> V { V::Number(x) }
fn mix(d: u64, x: f64) -> u64 { d.wrapping_mul(0x100000001B3).wrapping_add(x.to_bits()) }

pub fn run_tmrange(tk: &mut Toks) -> Option<String> {
    let kind = tk.next()?; let start: i64 = tk.next()?.parse().ok()?; let cnt: i64 = tk.next()?.parse().ok()?;
    let mut viol = 0u64; let mut digest = 0u64; let mut first: Option<String> = None;
    let mut bad = |what: String, viol: &mut u64| { *viol += 1; if first.is_none() { first = Some(what); } };
    match kind {
        // every date: encode_date gives exactly the day number; all date extractors and the default string format recover it
        "d" => for z in start..start + cnt {
            let (y, m, d) = civil(z);
            let x = match num(t::encode_date(&[n(y as f64), n(m as f64), n(d as f64)])) { Some(x) => x, None => { bad(format!("encode_date({y},{m},{d}) failed"), &mut viol); continue; } };
            digest = mix(digest, x);
            if x != z as f64 { bad(format!("encode_date({y},{m},{d}) = {x}, expected {z}"), &mut viol); continue; }
            let leap = y % 4 == 0 && (y % 100 != 0 || y % 400 == 0);
            let dow = (z + 3).rem_euclid(7) as f64;
            let ok = num(t::year(&[n(x)])) == Some(y as f64) && num(t::month(&[n(x)])) == Some(m as f64) && num(t::day(&[n(x)])) == Some(d as f64)
                && num(t::day_of_week(&[n(x)])) == Some(dow) && t::is_leap_year(&[n(x)]) == Ok(V::Boolean(leap))
                && num(t::hour(&[n(x)])) == Some(0.0) && num(t::millisecond(&[n(x)])) == Some(0.0);
            if !ok { bad(format!("components of {y}-{m}-{d} not recovered"), &mut viol); continue; }
            if (0..=9999).contains(&y) {
                let s = format!("{:04}-{:02}-{:02}", y, m, d);
                if t::date_to_string(&[V::String("%Y-%m-%d".into()), n(x)]) != Ok(V::String(s.clone())) || num(t::string_to_date(&[V::String(s.clone())])) != Some(x) { bad(format!("string round trip of {s}"), &mut viol); }
            }
        },
        // every millisecond of the day: encode_time gives ms/86400000 exactly; hour..millisecond recover it
        "t" => for ms in start..start + cnt {
            let (h, mi, s, ml) = (ms / 3600000, ms / 60000 % 60, ms / 1000 % 60, ms % 1000);
            let x = match num(t::encode_time(&[n(h as f64), n(mi as f64), n(s as f64), n(ml as f64)])) { Some(x) => x, None => { bad(format!("encode_time({h},{mi},{s},{ml}) failed"), &mut viol); continue; } };
            digest = mix(digest, x);
            if x != ms as f64 / 86400000.0 { bad(format!("encode_time({h},{mi},{s},{ml}) = {x}"), &mut viol); continue; }
            let ok = num(t::hour(&[n(x)])) == Some(h as f64) && num(t::minute(&[n(x)])) == Some(mi as f64) && num(t::second(&[n(x)])) == Some(s as f64) && num(t::millisecond(&[n(x)])) == Some(ml as f64);
            if !ok { bad(format!("{h}:{mi}:{s}.{ml} decodes to {:?}:{:?}:{:?}.{:?}", num(t::hour(&[n(x)])), num(t::minute(&[n(x)])), num(t::second(&[n(x)])), num(t::millisecond(&[n(x)]))), &mut viol); }
        },
        // date x time combinations (pseudo-random from `start`), through both construction routes and inc_month
        // "n": the same checks on dates NEAR THE EPOCH (half within 512 days of 1970-01-01, half in 1778..2161) with half of the times on
        // whole seconds: there the day number is small, so the fraction keeps many bits and any second rounding step shows
        "c" | "n" => { let near = kind == "n"; let mut st = start as u64; let mut next = || { st = st.wrapping_add(0x9E3779B97F4A7C15); let mut z = st; z = (z ^ (z >> 30)).wrapping_mul(0xBF58476D1CE4E5B9); z = (z ^ (z >> 27)).wrapping_mul(0x94D049BB133111EB); z ^ (z >> 31) };
            for _ in 0..cnt {
                let (r1, r2, r3) = (next(), next(), next());
                let z = if !near { (r1 % 3652059) as i64 - 719162 } else if (r1 >> 40) & 1 == 0 { (r1 % 1025) as i64 - 512 } else { (r1 % 140001) as i64 - 70000 };
                let ms = if near && (r2 >> 40) & 1 == 0 { ((r2 % 86400) * 1000) as i64 } else { (r2 % 86400000) as i64 };
                let k = if near { (r3 % 241) as i64 - 120 } else { (r3 % 48001) as i64 - 24000 };
                let exact = |z: i64, ms: i64| ((z * 86400000 + ms) as f64) / 86400000.0;   // one correctly rounded division of an exact integer
                let (y, m, d) = civil(z); let (h, mi, s, ml) = (ms / 3600000, ms / 60000 % 60, ms / 1000 % 60, ms % 1000);
                let (xd, xt) = match (num(t::encode_date(&[n(y as f64), n(m as f64), n(d as f64)])), num(t::encode_time(&[n(h as f64), n(mi as f64), n(s as f64), n(ml as f64)]))) { (Some(a), Some(b)) => (a, b), _ => { bad("encode failed".into(), &mut viol); continue; } };
                let x = xd + xt; digest = mix(digest, x);
                let ok = num(t::year(&[n(x)])) == Some(y as f64) && num(t::month(&[n(x)])) == Some(m as f64) && num(t::day(&[n(x)])) == Some(d as f64)
                    && num(t::hour(&[n(x)])) == Some(h as f64) && num(t::minute(&[n(x)])) == Some(mi as f64) && num(t::second(&[n(x)])) == Some(s as f64) && num(t::millisecond(&[n(x)])) == Some(ml as f64);
                if !ok { bad(format!("{y}-{m}-{d} {h}:{mi}:{s}.{ml} (date+time) not recovered"), &mut viol); continue; }
                if ml == 0 { let txt = format!("{:04}-{:02}-{:02} {:02}:{:02}:{:02}", y, m, d, h, mi, s);
                    match num(t::string_to_datetime(&[V::String(txt.clone())])) { Some(x2) => { digest = mix(digest, x2);
                        if num(t::second(&[n(x2)])) != Some(s as f64) || num(t::day(&[n(x2)])) != Some(d as f64) || t::date_to_string(&[V::String("%Y-%m-%d %H:%M:%S".into()), n(x2)]) != Ok(V::String(txt.clone())) { bad(format!("string route {txt}"), &mut viol); }
                        else if x2 != exact(z, ms) { bad(format!("string_to_datetime({txt}) = {x2:?} is not the number of that date and time ({:?})", exact(z, ms)), &mut viol); } }
                        None => bad(format!("string_to_datetime({txt}) failed"), &mut viol) } }
                // inc_month: whole months, day clamped, time of day kept
                if let Some(x3) = num(t::inc_month(&[n(x), n(k as f64)])) { digest = mix(digest, x3);
                    let tot = y * 12 + (m as i64 - 1) + k; let (y3, m3) = (tot.div_euclid(12), tot.rem_euclid(12) as u32 + 1);
                    let dim = match m3 { 1 | 3 | 5 | 7 | 8 | 10 | 12 => 31, 4 | 6 | 9 | 11 => 30, _ => if y3 % 4 == 0 && (y3 % 100 != 0 || y3 % 400 == 0) { 29 } else { 28 } };
                    let ok = num(t::year(&[n(x3)])) == Some(y3 as f64) && num(t::month(&[n(x3)])) == Some(m3 as f64) && num(t::day(&[n(x3)])) == Some(d.min(dim) as f64)
                        && num(t::hour(&[n(x3)])) == Some(h as f64) && num(t::minute(&[n(x3)])) == Some(mi as f64) && num(t::second(&[n(x3)])) == Some(s as f64) && num(t::millisecond(&[n(x3)])) == Some(ml as f64);
                    if !ok { bad(format!("inc_month({y}-{m}-{d} {h}:{mi}:{s}.{ml}, {k})"), &mut viol); }
                    else { let z3 = days_from_civil(y3, m3, d.min(dim)); if x3 != exact(z3, ms) { bad(format!("inc_month({y}-{m}-{d} {h}:{mi}:{s}.{ml}, {k}) = {x3:?} is not exactly the number of the shifted date and time ({:?})", exact(z3, ms)), &mut viol); } } }
                else { bad(format!("inc_month({y}-{m}-{d}, {k}) failed"), &mut viol); }
            } }
        // "p": neighbouring instants decoded back to back on one thread: the last millisecond of a day, midnight of the next, noon of the first, … for days
        // on both sides of 1970 (something remembered from the previous call and keyed by a truncating division shows here)
        "p" => { let mut st = start as u64; let mut next = || { st = st.wrapping_add(0x9E3779B97F4A7C15); let mut z = st; z = (z ^ (z >> 30)).wrapping_mul(0xBF58476D1CE4E5B9); z = (z ^ (z >> 27)).wrapping_mul(0x94D049BB133111EB); z ^ (z >> 31) };
            for _ in 0..cnt {
                let r1 = next(); let z = if (r1 >> 40) & 1 == 0 { -((r1 % 70000) as i64) - 1 } else { (r1 % 70000) as i64 };
                let steps: [(i64, i64); 7] = [(z - 1, 86399999), (z, 0), (z - 1, 43200000), (z, 1), (z, 0), (z - 1, (next() % 86400000) as i64), (z, 0)];
                for (zz, ms) in steps {
                    let x = ((zz * 86400000 + ms) as f64) / 86400000.0; digest = mix(digest, x);
                    let (y, m, d) = civil(zz); let (h, mi, s, ml) = (ms / 3600000, ms / 60000 % 60, ms / 1000 % 60, ms % 1000);
                    let ok = num(t::year(&[n(x)])) == Some(y as f64) && num(t::month(&[n(x)])) == Some(m as f64) && num(t::day(&[n(x)])) == Some(d as f64) && num(t::day_of_week(&[n(x)])) == Some((zz + 3).rem_euclid(7) as f64)
                        && num(t::hour(&[n(x)])) == Some(h as f64) && num(t::minute(&[n(x)])) == Some(mi as f64) && num(t::second(&[n(x)])) == Some(s as f64) && num(t::millisecond(&[n(x)])) == Some(ml as f64)
                        && (!(0..=9999).contains(&y) || t::date_to_string(&[V::String("%Y-%m-%d %H:%M:%S%.3f".into()), n(x)]) == Ok(V::String(format!("{:04}-{:02}-{:02} {:02}:{:02}:{:02}.{:03}", y, m, d, h, mi, s, ml))));
                    if !ok { bad(format!("{y}-{m}-{d} {h}:{mi}:{s}.{ml} not recovered when decoded right after its neighbour"), &mut viol); }
                } } }
        // rejections: dates that do not exist and out-of-range time components must be error values
        "r" => for i in start..start + cnt {
            let y = 1 + (i * 37) % 9999; let leap = y % 4 == 0 && (y % 100 != 0 || y % 400 == 0);
            let feb = if leap { 30 } else { 29 };
            let bad_dates: [(i64, i64, i64); 9] = [(y, 13, 1), (y, 0, 1), (y, 2, feb), (y, 2, 30), (y, 4, 31), (y, 1, 0), (y, 1, 32), (y, 12, 32), (y, -1, 5)];
            for (yy, mm, dd) in bad_dates {
                if t::encode_date(&[n(yy as f64), n(mm as f64), n(dd as f64)]).is_ok() { bad(format!("encode_date({yy},{mm},{dd}) accepted"), &mut viol); }
                if (0..=99).contains(&mm) && (0..=99).contains(&dd) && t::string_to_date(&[V::String(format!("{:04}-{:02}-{:02}", yy, mm, dd))]).is_ok() { bad(format!("string_to_date({yy}-{mm}-{dd}) accepted"), &mut viol); }
            }
            let (h, mi, s) = (i % 24, (i * 7) % 60, (i * 11) % 60);
            let bad_times: [(i64, i64, i64); 7] = [(24, mi, s), (25 + i % 40, mi, s), (h, 60, s), (h, 61 + i % 30, s), (h, mi, 60), (h, mi, 61 + i % 30), (h, mi, 99)];
            for (hh, mm, ss) in bad_times {
                if t::encode_time(&[n(hh as f64), n(mm as f64), n(ss as f64)]).is_ok() { bad(format!("encode_time({hh},{mm},{ss}) accepted"), &mut viol); }
                if t::string_to_time(&[V::String(format!("{:02}:{:02}:{:02}", hh, mm, ss))]).is_ok() { bad(format!("string_to_time({hh}:{mm}:{ss}) accepted"), &mut viol); }
                if t::string_to_datetime(&[V::String(format!("2024-03-01 {:02}:{:02}:{:02}", hh, mm, ss))]).is_ok() { bad(format!("string_to_datetime(.. {hh}:{mm}:{ss}) accepted"), &mut viol); }
            }
            for (hh, mm, ss) in [(-1, mi, s), (h, -1, s), (h, mi, -1)] { if t::encode_time(&[n(hh as f64), n(mm as f64), n(ss as f64)]).is_ok() { bad(format!("encode_time({hh},{mm},{ss}) accepted"), &mut viol); } }
        },
        _ => return None,
    }
    Some(format!("viol {} digest {:016x}{}", viol, digest, first.map_or(String::new(), |f| format!(" first {}", hex(&f)))))
}
