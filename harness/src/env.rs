//! Environments used by the tree streams: a `StaticEnvironment` built from the protocol's env description,
//! wrapped in a recording `Environment` (public trait) that logs `variable()` and `call()` events.
use crate::codec::*;
use slac::environment::{Environment, FunctionResult};
use slac::function::{Arity, Function};
use slac::stdlib::{NativeError, NativeResult};
use slac::{StaticEnvironment, Value as V};
use std::cell::RefCell;
use std::rc::Rc;

// how often a native test function was actually ENTERED (an observable effect of a host function: a result cache between the
// environment and the function, or inside the interpreter, changes this number and nothing else)
thread_local! { pub static NATIVE_ENTERED: std::cell::Cell<u64> = const { std::cell::Cell::new(0) }; }
fn entered() { NATIVE_ENTERED.with(|c| c.set(c.get() + 1)); }
pub fn native_entered() -> u64 { NATIVE_ENTERED.with(|c| c.get()) }

// test behaviours, mirrored one by one in the Lean driver (Driver/Codec.lean `behaviour`)
fn b_first(p: &[V]) -> NativeResult { entered(); p.first().cloned().ok_or(NativeError::WrongParameterCount(1)) }
fn b_cnt(p: &[V]) -> NativeResult { entered(); Ok(V::Number(p.len() as f64)) }
fn b_fail(_p: &[V]) -> NativeResult { entered(); Err(NativeError::CustomError("boom".into())) }
fn b_arr(p: &[V]) -> NativeResult { entered(); Ok(V::Array(p.to_vec())) }
fn b_k0(_p: &[V]) -> NativeResult { entered(); Ok(V::Boolean(true)) }
fn b_k1(_p: &[V]) -> NativeResult { entered(); Ok(V::Number(0.0)) }
fn b_k2(_p: &[V]) -> NativeResult { entered(); Ok(V::String("k".into())) }
fn b_k3(_p: &[V]) -> NativeResult { entered(); Ok(V::Array(vec![])) }
fn b_last(p: &[V]) -> NativeResult { entered(); p.last().cloned().ok_or(NativeError::WrongParameterType) }
fn b_ifthen(p: &[V]) -> NativeResult { entered(); slac::stdlib::common::if_then(p) }

/// a value `==` to `v` under the coercing equality but not identical to it (None when there is none worth trying)
fn decoy(v: &V) -> Option<V> {
    Some(match v {
        V::Number(x) if x.is_nan() => return None,
        V::Number(x) if *x == 0.0 => V::Number(-*x),
        V::Number(x) if *x == 1.0 => V::Boolean(true),
        V::Number(x) => V::String(format!("{}", x)),
        V::Boolean(b) => V::Number(if *b { 1.0 } else { 0.0 }),
        V::String(s) => match s.parse::<f64>() { Ok(x) if !x.is_nan() => V::Number(x), _ => return None },
        V::Array(a) => { let d: Vec<V> = a.iter().map(|x| decoy(x).unwrap_or_else(|| x.clone())).collect(); V::Array(d) }
    })
}

pub const BEHAVIOURS: [&str; 10] = ["first", "cnt", "fail", "arr", "k0", "k1", "k2", "k3", "last", "ifthen"];

pub fn behaviour(name: &str) -> Option<fn(&[V]) -> NativeResult> {
    Some(match name {
        "first" => b_first, "cnt" => b_cnt, "fail" => b_fail, "arr" => b_arr,
        "k0" => b_k0, "k1" => b_k1, "k2" => b_k2, "k3" => b_k3, "last" => b_last,
        "ifthen" => b_ifthen,
        other => {
            let b = other.strip_prefix("b:")?;
            slac::stdlib::builtins().into_iter().find(|f| f.name == b)?.func
        }
    })
}

#[derive(Clone)]
pub struct FnDesc { pub name: String, pub kind: char, pub req: usize, pub opt: usize, pub pure: bool, pub beh: String }
#[derive(Clone, Default)]
pub struct EnvDesc { pub vars: Vec<(String, V)>, pub fns: Vec<FnDesc> }

impl EnvDesc {
    /// "registered pure and callable with k arguments", decided from the REGISTRATION (the harness's own arity arithmetic:
    /// exactly k; k plus up to m optional; at least one; none) — independent of `function_exists` under test.
    /// The most recent registration of a (lower-cased) name wins.
    pub fn pure_within_arity(&self, name: &str, k: usize) -> bool {
        let key = name.to_lowercase();
        match self.fns.iter().rev().find(|f| f.name.to_lowercase() == key) {
            None => false,
            Some(f) => f.pure && match f.kind { 'P' => f.req <= k && k <= f.req + f.opt, 'V' => k >= 1, _ => k == 0 },
        }
    }
    pub fn show(&self) -> String {
        let mut p = vec![format!("E {}", self.vars.len())];
        for (n, v) in &self.vars { p.push(hex(n)); p.push(show_in(v)); }
        p.push(format!("{}", self.fns.len()));
        for f in &self.fns { p.push(format!("{} {} {} {} {} {}", hex(&f.name), f.kind, f.req, f.opt, if f.pure { 1 } else { 0 }, f.beh)); }
        p.join(" ")
    }
    pub fn parse(t: &mut Toks) -> Option<EnvDesc> {
        if t.next()? != "E" { return None; }
        let nv = t.usize()?; let mut vars = Vec::new();
        for _ in 0..nv { let n = t.name()?; let v = t.value()?; vars.push((n, v)); }
        let nf = t.usize()?; let mut fns = Vec::new();
        for _ in 0..nf {
            let name = t.name()?; let kind = t.next()?.chars().next()?; let req = t.usize()?; let opt = t.usize()?;
            let pure = t.next()? == "1"; let beh = t.next()?.to_string();
            fns.push(FnDesc { name, kind, req, opt, pure, beh });
        }
        Some(EnvDesc { vars, fns })
    }
    pub fn build(&self) -> Option<StaticEnvironment> {
        let mut env = StaticEnvironment::default();
        // every binding is an OVERWRITE of a loosely equal value (`1` over `true`, `0` over `-0`, `5` over `'5'`): the environment must
        // end up holding exactly the value added last
        for (n, v) in &self.vars { if let Some(d) = decoy(v) { env.add_variable(n, d); } env.add_variable(n, v.clone()); }
        for f in &self.fns {
            let arity = match f.kind { 'P' => Arity::Polyadic { required: f.req, optional: f.opt }, 'V' => Arity::Variadic, _ => Arity::None };
            env.add_function(Function { name: f.name.clone(), func: behaviour(&f.beh)?, arity, params: String::new(), pure: f.pure });
        }
        Some(env)
    }
}

pub struct RecEnv { pub inner: StaticEnvironment, pub log: RefCell<Vec<String>>, pub entered0: u64 }
impl RecEnv {
    pub fn new(inner: StaticEnvironment) -> Self { RecEnv { inner, log: RefCell::new(vec![]), entered0: native_entered() } }
    /// " ; NATIVE k of m" when the number of native test functions entered since `new` differs from the number of logged `call()`
    /// events that name a registered test function (every such event must reach its function exactly once); "" otherwise
    pub fn native_law(&self, d: &EnvDesc) -> String {
        let want = self.log.borrow().iter().filter(|ev| { let mut t = ev.split(' ');
            matches!((t.next(), t.next().and_then(unhex)), (Some("cl"), Some(name)) if d.fns.iter().any(|f| f.name.to_lowercase() == name.to_lowercase() && !f.beh.starts_with("b:"))) }).count() as u64;
        let got = native_entered() - self.entered0;
        if got == want { String::new() } else { format!(" ; NATIVE entered {} expected {}", got, want) }
    }
    pub fn trace(&self) -> String { let l = self.log.borrow(); if l.is_empty() { "-".into() } else { l.join(" , ") } }
    /// C06's observable: every event is a call of a function registered pure for that argument count
    pub fn all_pure_calls(&self, d: &EnvDesc) -> bool {
        self.log.borrow().iter().all(|ev| {
            let mut t = ev.split(' ');
            match (t.next(), t.next().and_then(unhex), t.next().and_then(|k| k.parse::<usize>().ok())) {
                (Some("cl"), Some(name), Some(k)) => d.pure_within_arity(&name, k),
                _ => false,
            }
        })
    }
    pub fn clear(&self) { self.log.borrow_mut().clear(); }
}
impl Environment for RecEnv {
    fn variable(&self, name: &str) -> Option<Rc<V>> {
        self.log.borrow_mut().push(format!("lk {}", hex(name)));
        self.inner.variable(name)
    }
    fn call(&self, name: &str, params: &[V]) -> NativeResult {
        let mut p = vec![format!("cl {} {}", hex(name), params.len())];
        p.extend(params.iter().map(show));
        self.log.borrow_mut().push(p.join(" "));
        self.inner.call(name, params)
    }
    fn variable_exists(&self, name: &str) -> bool { self.inner.variable_exists(name) }
    fn function_exists(&self, name: &str, arity: usize) -> FunctionResult { self.inner.function_exists(name, arity) }
}

/// A host environment that is CASE-SENSITIVE (the `Environment` trait does not prescribe case folding: that is `StaticEnvironment`'s choice): names are
/// compared exactly, the latest registration of a spelling wins.  Same event log as `RecEnv`.
pub struct CsEnv { vars: Vec<(String, Rc<V>)>, fns: Vec<(FnDesc, fn(&[V]) -> NativeResult)>, pub log: RefCell<Vec<String>> }
impl CsEnv {
    pub fn new(d: &EnvDesc) -> Option<Self> {
        let mut fns = vec![]; for f in &d.fns { fns.push((f.clone(), behaviour(&f.beh)?)); }
        Some(CsEnv { vars: d.vars.iter().map(|(n, v)| (n.clone(), Rc::new(v.clone()))).collect(), fns, log: RefCell::new(vec![]) })
    }
    pub fn trace(&self) -> String { let l = self.log.borrow(); if l.is_empty() { "-".into() } else { l.join(" , ") } }
}
impl Environment for CsEnv {
    fn variable(&self, name: &str) -> Option<Rc<V>> {
        self.log.borrow_mut().push(format!("lk {}", hex(name)));
        self.vars.iter().rev().find(|(n, _)| n == name).map(|(_, v)| v.clone())
    }
    fn call(&self, name: &str, params: &[V]) -> NativeResult {
        let mut p = vec![format!("cl {} {}", hex(name), params.len())]; p.extend(params.iter().map(show));
        self.log.borrow_mut().push(p.join(" "));
        match self.fns.iter().rev().find(|(f, _)| f.name == name) { Some((_, func)) => func(params), None => Err(NativeError::FunctionNotFound(name.to_string())) }
    }
    fn variable_exists(&self, name: &str) -> bool { self.vars.iter().any(|(n, _)| n == name) }
    fn function_exists(&self, name: &str, k: usize) -> FunctionResult {
        match self.fns.iter().rev().find(|(f, _)| f.name == name) {
            None => FunctionResult::NotFound,
            Some((f, _)) => match f.kind {
                'P' => if k < f.req || k > f.req + f.opt { FunctionResult::WrongArity { min: f.req, max: f.req + f.opt } } else { FunctionResult::Exists { pure: f.pure } },
                'V' => if k > 0 { FunctionResult::Exists { pure: f.pure } } else { FunctionResult::WrongArity { min: 1, max: 99 } },
                _ => if k == 0 { FunctionResult::Exists { pure: f.pure } } else { FunctionResult::WrongArity { min: 0, max: 0 } },
            },
        }
    }
}
