//! `call` stream: every registered builtin called directly with generated argument lists.
use crate::codec::*;
use crate::gen::*;
use crate::rng::Rng;
use slac::stdlib::{builtins, STRING_OFFSET};
use slac::Value as V;

/// `call <off> <name> <n> <args…>` → `ok <v>` | `err <NativeError>`; impure builtins: only the class is printed
pub fn run_call(t: &mut Toks) -> Option<String> {
    let off: f64 = t.next()?.parse().ok()?;
    if off != STRING_OFFSET { return Some("bad-offset".into()); }
    let name = t.name()?; let n = t.usize()?;
    let mut args = vec![]; for _ in 0..n { args.push(t.value()?); }
    let f = builtins().into_iter().find(|f| f.name == name)?;
    let r = (f.func)(&args);
    Some(if f.pure { show_nres(&r) } else { match r { Ok(_) => "ok impure".into(), Err(e) => format!("err {}", show_native_err(&e)) } })
}

/// determinism probe (C14): the same call k times in this process (fresh hasher state each time inside the
/// builtin, e.g. HashSet::new) must give one answer. `rep <k> <off> <name> <n> <args…>` → `stable <answer>` | `unstable a / b`
pub fn run_rep(t: &mut Toks) -> Option<String> {
    let k = t.usize()?;
    let off: f64 = t.next()?.parse().ok()?;
    if off != STRING_OFFSET { return Some("bad-offset".into()); }
    let name = t.name()?; let n = t.usize()?;
    let mut args = vec![]; for _ in 0..n { args.push(t.value()?); }
    let f = builtins().into_iter().find(|f| f.name == name)?;
    if !f.pure { return Some("impure".into()); }
    let first = show_nres(&(f.func)(&args));
    // other calls in between: history must not matter
    let _ = slac::stdlib::common::unique(&[V::Array(vec![V::Number(1.0), V::String("1".into()), V::Boolean(true)])]);
    for _ in 1..k {
        let again = show_nres(&(f.func)(&args));
        if again != first { return Some(format!("unstable {} / {}", first, again)); }
    }
    Some(format!("stable {}", first))
}

const IDX: &[f64] = &[-1.0, 0.0, 1.0, 2.0, 3.0, 4.0, 5.0, 0.5, 1.5, 2.999, -0.0, -0.5, 1e300, -1e300, f64::NAN, f64::INFINITY, f64::NEG_INFINITY,
    9007199254740992.0, 18446744073709551615.0, 18446744073709551616.0, 4294967296.0, 7.0, 10.0, 20.0, 21.0, 100.0];
const HAYS: &[&str] = &["", "a", "abc", "aaa", "abcabc", "äbc", "bäb", "e\u{301}x", "𝄞a𝄞", "Hello World", "a,b;c", "\"q;x\";y", "  pad  ", "\u{a0}x\u{2003}", "ÄÖÜ", "straße", "ΑΣ", "aXbXc", "1;2;3"];
const NEEDLES: &[&str] = &["", "a", "b", "bc", "aa", "ä", "c", "X", ";", ",", "ab", "abc", "z", "𝄞", "\u{301}", " "];

fn s(x: &str) -> V { V::String(x.to_string()) }
fn sp(r: &mut Rng, xs: &[&str]) -> V { s(xs[r.usize(xs.len())]) }
fn num(x: f64) -> V { V::Number(x) }
fn gen_hay(r: &mut Rng) -> V {
    if r.chance(2, 3) { s(*r.pick(HAYS)) } else {
        let n = match r.below(8) { 0 => 0, 1 => 1, 2 => 20, 3 => 21, 4 => 30 + r.usize(40), _ => r.usize(6) };
        V::Array((0..n).map(|_| match r.below(8) { 0 => num(1.0), 1 => s("1"), 2 => V::Boolean(true), 3 => num(*r.pick(&[1.0, 2.0, 3.0, 0.0, -0.0])), 4 => s(*r.pick(NEEDLES)), _ => gen_val(r, 1) }).collect())
    }
}
fn gen_needle(r: &mut Rng, hay: &V) -> V {
    match hay {
        V::String(h) if r.chance(1, 2) && !h.is_empty() => { let cs: Vec<char> = h.chars().collect(); let a = r.usize(cs.len()); let b = a + r.usize(cs.len() - a + 1); s(&cs[a..b].iter().collect::<String>()) }
        V::Array(a) if r.chance(1, 2) && !a.is_empty() => r.pick(a).clone(),
        _ => if r.chance(2, 3) { s(*r.pick(NEEDLES)) } else { gen_small_val(r) },
    }
}
fn gen_idx(r: &mut Rng) -> V { if r.chance(5, 6) { num(*r.pick(IDX)) } else { num(gen_num(r)) } }
/// safe collections for the ordering builtins: no NaN, and not both numeric strings and numbers
fn gen_order_args(r: &mut Rng, _unused: bool) -> Vec<V> {
    let safe = r.chance(7, 8);
    let n = match r.below(8) { 0 => 0, 1 => 1, 2 => 21 + r.usize(30), 3 => 100 + r.usize(200), _ => 2 + r.usize(8) };
    let mode = r.below(2);
    (0..n).map(|_| {
        if !safe { return gen_val(r, 2); }
        match r.below(6) {
            0 => V::Boolean(r.chance(1, 2)),
            1 | 2 => if mode == 0 { num(*r.pick(&[0.0, -0.0, 1.0, -1.0, 2.5, 10.0, 9.5, f64::INFINITY, f64::NEG_INFINITY, 1e300, 5e-324, 3.0, 3.0, 7.0])) } else { s(*r.pick(&["9", "10", "9.5", "1e3", "-0", "inf", "0", "9223372036854775807", "-9223372036854775808", "9223372036854775808", "9007199254740993", "1e19", "1e30"])) },
            3 => s(*r.pick(&["", "a", "b", "ab", "B", "ä", "nan", "x1", "z", "\0", "a\0", "a\0\0", "id", "id\0", "ab\0c", "abcdefgh", "abcdefgh\0", "abcdefghi"])),
            4 => V::Array((0..r.below(3)).map(|_| if mode == 0 { num(r.below(4) as f64) } else { s(*r.pick(&["a", "9", "10"])) }).collect()),
            _ => if mode == 0 { num((r.below(41) as f64) - 20.0) } else { s(*r.pick(&["1", "2", "10", "a"])) },
        }
    }).collect()
}
fn gen_date_num(r: &mut Rng) -> f64 {
    // boundary dates: epoch, year 1 / 0 / -1, year 9999 / 10000 (RFC 2822 limit), chrono's NaiveDate limits and beyond
    const EDGE: &[f64] = &[0.0, -0.0, 1.0, -1.0, 0.5, 0.25, 19000.75, -719162.0, -719163.0, -719528.0, -719529.0, -800000.0, 2932896.0, 2932896.99999999,
        2932897.0, 3000000.0, 5000000.0, -96465658.0, -96465659.0, 95026601.0, 95026601.999, 95026602.0, 1e10, -1e10, 1e300, -1e300, f64::NAN, f64::INFINITY, f64::NEG_INFINITY,
        106751991167.0, -106751991168.0, 9.3e10,
        // the first and the last day chrono 0.4.45 represents (-262143-01-01, +262142-12-31) at several times of day: a zone offset of a few
        // hours moves these across the limit
        95026236.0, 95026236.04, 95026236.5, 95026236.96, 95026236.999, 95026237.0, -96465292.0, -96465291.999, -96465291.96, -96465291.5, -96465291.04, -96465293.0];
    match r.below(9) {
        0 => gen_num(r),
        1 | 2 => *r.pick(EDGE),
        8 => { let e = *r.pick(EDGE); if e.is_finite() && e != 0.0 { let k = 1 + r.below(16); f64::from_bits(if r.chance(1, 2) { e.to_bits() + k } else { e.to_bits() - k }) } else { e } }
        _ => { let days = (r.below(3652059) as i64 - 719162) as f64; let ms = r.below(86400000) as f64; if r.chance(1, 3) { days } else { (days * 86400000.0 + ms) / 86400000.0 } }
    }
}

/// RFC 2822 date-time texts: mostly valid, with every field drawn from a pool that contains the limits of what chrono can represent
/// (years 0, 9999, 10000, 262142/262143, two-digit years), all zone spellings, second 60, and a malformed stream
pub fn gen_rfc2822(r: &mut Rng) -> String {
    if r.chance(1, 12) { return (*r.pick(&["garbage", "", "Tue, 1 Jul 2003", "10:52:37 +0200", "Tue, 1 Jul 2003 10:52:37", "1 Jul 2003 10:52:37 +0200 trailing", "32 Jan 2003 10:52:37 +0000", "Mon, 1 Jul 2003 10:52:37 +0200"])).to_string(); }
    // the last day chrono can represent, at an hour where a zone offset decides whether the local time still exists
    if r.chance(1, 12) { return format!("31 Dec 262142 {:02}:{:02}:{:02} {}", 8 + r.below(16), r.below(60), r.below(60), r.pick(&["+0000", "GMT", "-0100", "-0600", "-1200", "+0100", "-2359", "+1400"])); }
    if let Some((y, m, d)) = dst_day(r) { return format!("{} {} {} {:02}:{:02}:00 +0000", d, MON[(m - 1) as usize], y, r.below(8), *r.pick(&[0u64, 15, 29, 30, 31, 45, 59])); }
    let dow = if r.chance(1, 2) { format!("{}, ", r.pick(&["Mon", "Tue", "Wed", "Thu", "Fri", "Sat", "Sun", "mon", "TUE"])) } else { String::new() };
    let day = match r.below(6) { 0 => *r.pick(&[0u64, 29, 30, 31, 32, 1]), _ => 1 + r.below(28) };
    let mon = *r.pick(&["Jan", "Feb", "Mar", "Apr", "May", "Jun", "Jul", "Aug", "Sep", "Oct", "Nov", "Dec", "jan", "DEC", "Foo"]);
    let year = match r.below(5) { 0 => r.pick(&["0", "1", "49", "50", "69", "70", "99", "100", "999", "1969", "1970", "9999", "10000", "262142", "262143", "262144", "999999", "-1", "0000", "02024"]).to_string(), _ => format!("{}", 1900 + r.below(200)) };
    let (h, mi, sec) = (if r.chance(1, 10) { 24 } else { r.below(24) }, if r.chance(1, 12) { 60 } else { r.below(60) }, if r.chance(1, 8) { 60 } else if r.chance(1, 12) { 61 } else { r.below(60) });
    let time = if r.chance(1, 5) { format!("{:02}:{:02}", h, mi) } else { format!("{:02}:{:02}:{:02}", h, mi, sec) };
    let zone = match r.below(3) { 0 => r.pick(&["+0000", "-0000", "GMT", "UT", "UTC", "Z", "EST", "EDT", "CST", "PST", "PDT", "A", "z", "+2359", "-2359", "+1400", "-1200", "+9959", "+0060", "+01:00", "0100", ""]).to_string(),
        _ => format!("{}{:02}{:02}", if r.chance(1, 2) { '+' } else { '-' }, r.below(15), *r.pick(&[0u64, 30, 45])) };
    let sep = if r.chance(1, 10) { "  " } else { " " };
    let mut t = format!("{dow}{day}{sep}{mon} {year} {time}{sep}{zone}");
    if r.chance(1, 15) { t = format!(" {t} "); }
    if r.chance(1, 15) { t.push_str(" (comment)"); }
    t
}
/// RFC 3339 date-time texts (same idea): separators T/t/space, fractions of 0-12 digits, second 60, offsets incl. Z/z and limits
/// UTC days on which the EU (last Sunday of March / October, 01:00 UTC) or the US (second Sunday of March, first of November) change clocks
const DST_DAYS: &[(u64, u64, u64)] = &[(2023, 3, 26), (2023, 10, 29), (2024, 3, 31), (2024, 10, 27), (2025, 3, 30), (2025, 10, 26), (2024, 3, 10), (2024, 11, 3), (2025, 3, 9), (2025, 11, 2)];
thread_local! { static DST_BURST: std::cell::Cell<(usize, u32)> = const { std::cell::Cell::new((0, 0)) }; }
/// transition days come in BURSTS of consecutive calls (both RFC generators share the burst), so that several instants of one
/// day, before and after the switch, are converted back to back — the history a per-day cache of the zone offset would need
fn dst_day(r: &mut Rng) -> Option<(u64, u64, u64)> {
    DST_BURST.with(|b| { let (i, left) = b.get();
        if left > 0 { b.set((i, left - 1)); if r.chance(4, 5) { return Some(DST_DAYS[i]); } return None; }
        if r.chance(1, 8) { let i = r.usize(DST_DAYS.len()); b.set((i, 6)); return Some(DST_DAYS[i]); }
        None })
}
const MON: [&str; 12] = ["Jan", "Feb", "Mar", "Apr", "May", "Jun", "Jul", "Aug", "Sep", "Oct", "Nov", "Dec"];
pub fn gen_rfc3339(r: &mut Rng) -> String {
    // instants on both sides of a daylight-saving switch, several per day (what an offset cache keyed by day would confuse)
    if let Some((y, m, d)) = dst_day(r) { return format!("{:04}-{:02}-{:02}T{:02}:{:02}:00Z", y, m, d, r.below(8), *r.pick(&[0u64, 15, 29, 30, 31, 45, 59])); }
    if r.chance(1, 12) { return (*r.pick(&["garbage", "", "2024-02-29", "2024-02-29T00:00:00", "24-02-29T00:00:00Z", "2024-02-29T00:00:00Z trailing", "2024-02-30T00:00:00Z", "2024-02-29T00:00Z", "+12024-02-29T00:00:00Z"])).to_string(); }
    let year = match r.below(4) { 0 => *r.pick(&[0u64, 1, 1969, 1970, 9999, 1600, 2000, 2100]), _ => 1900 + r.below(200) };
    let (mo, d) = (if r.chance(1, 15) { *r.pick(&[0u64, 13]) } else { 1 + r.below(12) }, match r.below(6) { 0 => *r.pick(&[0u64, 29, 30, 31, 32]), _ => 1 + r.below(28) });
    let (h, mi, sec) = (if r.chance(1, 10) { 24 } else { r.below(24) }, if r.chance(1, 12) { 60 } else { r.below(60) }, if r.chance(1, 8) { 60 } else { r.below(60) });
    let frac = match r.below(4) { 0 => String::new(), 1 => format!(".{}", r.pick(&["0", "5", "999", "9995", "9999999", "123456789", "1234567891", "000000000001", "", "999999999999"])), _ => format!(".{:03}", r.below(1000)) };
    let off = match r.below(3) { 0 => r.pick(&["Z", "z", "+00:00", "-00:00", "+23:59", "-23:59", "+24:00", "+14:00", "+0100", "+01", "", "+01:60"]).to_string(),
        _ => format!("{}{:02}:{:02}", if r.chance(1, 2) { '+' } else { '-' }, r.below(15), *r.pick(&[0u64, 30, 45])) };
    format!("{:04}-{:02}-{:02}{}{:02}:{:02}:{:02}{}{}", year, mo, d, r.pick(&["T", "T", "T", "t", " ", "_"]), h, mi, sec, frac, off)
}
/// an ASCII text in which ONE window of 2-4 bytes is replaced by a single character of that many UTF-8 bytes (same byte length, same
/// separators at the same byte offsets, but a byte offset inside the window is no character boundary), or one byte by a 2-4 byte character
pub fn multibyte_variant(r: &mut Rng, t: &str) -> String {
    let b = t.as_bytes(); if b.len() < 2 || !t.is_ascii() { return t.to_string(); }
    let k = 2 + r.usize(3).min(b.len() - 2); let at = r.usize(b.len() - k + 1);
    let c = match k { 2 => *r.pick(&['é', 'ß', 'ä', '\u{a0}']), 3 => *r.pick(&['月', '€', '日', '\u{2003}']), _ => *r.pick(&['🙄', '𝄞']) };
    if r.chance(1, 4) { format!("{}{}{}", &t[..at], c, &t[at + 1..]) } else { format!("{}{}{}", &t[..at], c, &t[at + k..]) }
}
pub fn gen_args(r: &mut Rng, name: &str) -> Vec<V> {
    // words that mean a moment in SQL / shells / spreadsheets (a "convenience" reading of them consults the clock: the answer then differs between two calls)
    if matches!(name, "string_to_date" | "string_to_time" | "string_to_datetime" | "date_from_rfc3339" | "date_from_rfc2822" | "date" | "time" | "float" | "int") && r.chance(1, 12) {
        let w = *r.pick(&["now", "today", "tomorrow", "yesterday", "NOW", " now ", "Today", "epoch", "infinity", "-infinity", "noon", "midnight", "current_timestamp", "CURRENT_DATE", "now()", "0000-00-00", "next week", "@0", "utc"]);
        return if name.starts_with("string_to") && r.chance(1, 3) { vec![s(w), s(match name { "string_to_date" => "%Y-%m-%d", "string_to_time" => "%H:%M:%S", _ => "%Y-%m-%d %H:%M:%S" })] } else { vec![s(w)] };
    }
    if matches!(name, "string_to_date" | "string_to_time" | "string_to_datetime" | "date_from_rfc3339" | "date_from_rfc2822") && r.chance(1, 6) {
        let t = match name { "string_to_date" => format!("{:04}-{:02}-{:02}", 1900 + r.below(200), 1 + r.below(12), 1 + r.below(28)), "string_to_time" => format!("{:02}:{:02}:{:02}", r.below(24), r.below(60), r.below(60)),
            "string_to_datetime" => format!("{:04}-{:02}-{:02} {:02}:{:02}:{:02}", 1900 + r.below(200), 1 + r.below(12), 1 + r.below(28), r.below(24), r.below(60), r.below(60)),
            "date_from_rfc3339" => format!("{:04}-{:02}-{:02}T{:02}:{:02}:{:02}Z", 1900 + r.below(200), 1 + r.below(12), 1 + r.below(28), r.below(24), r.below(60), r.below(60)),
            _ => format!("{} {} {} {:02}:{:02}:{:02} +0000", 1 + r.below(28), MON[r.usize(12)], 1900 + r.below(200), r.below(24), r.below(60), r.below(60)) };
        let v = s(&multibyte_variant(r, &t));
        return if name.starts_with("string_to") && r.chance(1, 3) { vec![v, s(match name { "string_to_date" => "%Y-%m-%d", "string_to_time" => "%H:%M:%S", _ => "%Y-%m-%d %H:%M:%S" })] } else { vec![v] };
    }
    // 1 in 8: arbitrary kinds and counts (error paths); otherwise arguments of the documented kinds
    if r.chance(1, 8) { let n = r.below(6); return (0..n).map(|_| if r.chance(1, 2) { gen_small_val(r) } else { gen_val(r, 2) }).collect(); }
    match name {
        "at" => { let h = gen_hay(r); vec![h, gen_idx(r)] }
        "copy" => { let h = gen_hay(r); vec![h, gen_idx(r), gen_idx(r)] }
        "insert" => { let h = gen_hay(r); let n = gen_needle(r, &h); vec![h, n, gen_idx(r)] }
        "replace" => { let h = gen_hay(r); let n = gen_needle(r, &h); if r.chance(1, 3) { vec![h, n] } else { let t = gen_needle(r, &h); vec![h, n, t] } }
        // values that are `==` across kinds (1, '1', true, 1.0, '1.0' …): the case in which a hash-based
        // implementation disagrees with equality
        "unique" if r.chance(1, 6) => { let n = 2 + r.below(5); vec![V::Array((0..n).map(|_| match r.below(9) { 0 => num(f64::INFINITY), 1 => s("inf"), 2 => s("Infinity"), 3 => s("INF"), 4 => num(f64::NEG_INFINITY), 5 => s("-inf"), 6 => s("+inf"),
            7 => V::Array(vec![num(f64::INFINITY)]), _ => V::Array(vec![s("infinity")]) }).collect())] }
        // more than a thousand elements that Value::cmp does NOT order totally (numbers among numeric strings of other digit counts, NaN): a
        // "fast path for long inputs" that sorts shows here
        "unique" | "reverse" | "length" | "count" | "contains" | "find" | "remove" | "all" | "any" | "empty" | "str" if r.chance(1, 25) => {
            let n = 1025 + r.usize(1500);
            let big = V::Array((0..n).map(|_| match r.below(6) { 0 => s(*r.pick(&["95", "100", "9", "10", "1e3", "97.5"])), 1 => num(f64::NAN), 2 => V::Boolean(r.chance(1, 2)), _ => num((r.below(200) as f64) / 2.0) }).collect());
            match name { "count" | "contains" | "find" | "remove" => vec![big, if r.chance(1, 2) { num(97.0) } else { s("100") }], _ => vec![big] } }
        // 33+ members that are ALL numbers (or all strings), with 0 next to -0 and the same NaN twice: equal / unequal by value, not by bit pattern
        "unique" | "count" | "contains" | "find" if r.chance(1, 10) => { let n = 33 + r.usize(60); let strs = r.chance(1, 4);
            let a = V::Array((0..n).map(|i| if strs { s(*r.pick(&["a", "b", "A", "", "0", "-0", "ab"])) } else { match r.below(8) { 0 => num(0.0), 1 => num(-0.0), 2 => num(f64::NAN), 3 => num(f64::from_bits(0x7ff8000000000001)), _ => num((i % 17) as f64) } }).collect());
            match name { "unique" => vec![a], _ => vec![a, if strs { s("0") } else { num(*r.pick(&[0.0, -0.0, f64::NAN, 3.0])) }] } }
        "contains" | "count" | "find" | "remove" => { let h = gen_hay(r); let n = gen_needle(r, &h); vec![h, n] }
        "unique" if r.chance(3, 4) => { let n = 2 + r.below(7); vec![V::Array((0..n).map(|_| match r.below(9) { 0 => num(1.0), 1 => s("1"), 2 => V::Boolean(true), 3 => s("1.0"), 4 => num(0.0), 5 => s("0"), 6 => V::Boolean(false), 7 => s(""), _ => num(-0.0) }).collect())] }
        "length" | "reverse" | "unique" | "empty" | "bool" | "str" => vec![if r.chance(2, 3) { gen_hay(r) } else { gen_val(r, 2) }],
        "all" | "any" => { let n = r.below(5); let v: Vec<V> = (0..n).map(|_| match r.below(5) { 0 => V::Boolean(true), 1 => V::Boolean(false), 2 => num(1.0), 3 => s("true"), _ => gen_small_val(r) }).collect(); if r.chance(1, 2) { vec![V::Array(v)] } else { v } }
        "sort" => vec![V::Array(gen_order_args(r, true))],
        "max" | "min" => { let v = gen_order_args(r, true); if r.chance(1, 2) { vec![V::Array(v)] } else { v } }
        "between" => { let mut v = gen_order_args(r, true); v.truncate(3); while v.len() < 3 { v.push(gen_small_val(r)); } v }
        "compare" => { let a = gen_val(r, 2); let b = if r.chance(1, 4) { a.clone() } else { gen_val(r, 2) }; vec![a, b] }
        "float" | "int" => vec![match r.below(5) { 0 => V::Boolean(r.chance(1, 2)), 1 => num(gen_num(r)),
            // what a person or another program writes for a number and `str::parse::<f64>` rejects (or reads differently): decimal commas, digit grouping, typographic
            // minus signs, digits of other scripts, currency and percent signs, surrounding blanks, C / hex / binary notations
            2 => s(*r.pick(&["12,5", "2,75", "-0,5", "1.234,5", "1,234.5", "1 000", "1'000", "1_000", "1\u{a0}000", "\u{2212}1", "\u{2212}12.5", "1e\u{2212}3", "\u{FF0D}3.25", "\u{2013}5",
                "\u{FF11}\u{FF12}", "\u{663}", "\u{0967}", "12%", "$5", "5 €", " 1", "1 ", "\t2\n", "0x1F", "0b101", "1e", "1f", "1d", "1.0f32", "+1", "+.5", "-.5e1", ".", "1..2", "1e1.5", "--1", "1e+-2",
                "Infinity", "-infinity", "NAN", "nan(1)", "1\u{200b}", "\u{feff}1", "1e9999", "-1e9999", "1e-9999", "0e0", "00.10", "1.e3", "1.", ".e1"])),
            _ => s(&if r.chance(1, 2) { gen_str(r) } else { format!("{}", gen_num(r)) }) }],
        "if_then" => { let n = 2 + r.below(2); let mut v = vec![if r.chance(5, 6) { V::Boolean(r.chance(1, 2)) } else { gen_small_val(r) }]; for _ in 1..=n - 1 { v.push(gen_small_val(r)); } v }
        "chr" => vec![num(match r.below(4) { 0 => r.below(300) as f64, 1 => (r.below(1300) as f64) / 10.0 - 1.0, 2 => *r.pick(&[0.0, 127.0, 127.5, 128.0, -1.0, 65.0, 255.0, 126.999, f64::NAN, f64::INFINITY, f64::NEG_INFINITY, -0.0, -0.5, 1e300]), _ => gen_num(r) })],
        "ord" => vec![s(&match r.below(4) { 0 => char::from_u32(r.below(300) as u32).unwrap_or('a').to_string(), 1 => r.pick(NEEDLES).to_string(), _ => char::from_u32(r.below(0x11000) as u32).unwrap_or('b').to_string() })],
        "lowercase" | "uppercase" | "trim" | "trim_left" | "trim_right" => vec![s(*r.pick(HAYS))],
        // pairs related by case mapping, over characters whose mapping changes the UTF-8 length or the character count
        // (Kelvin, Angstrom, Ohm signs, Ⱥ Ⱦ, ẞ, İ, ŉ, ǰ, ΐ, ﬁ, final sigma) as well as ordinary ones
        "same_text" if r.chance(2, 3) => { let n = 1 + r.below(5);
            let a: String = (0..n).map(|_| *r.pick(&['a', 'B', 'k', '\u{212A}', '\u{212B}', 'å', '\u{2126}', 'ω', 'Ⱥ', 'ⱥ', 'Ⱦ', 'ẞ', 'ß', 'İ', 'i', 'ı', 'I', 'ŉ', 'ǰ', 'ΐ', 'ﬁ', 'Σ', 'σ', 'ς', 'Ä', 'ä', 'ǅ', 'ǆ', ' ', '1', 'é', 'Ω'])).collect();
            let b = match r.below(5) { 0 => a.to_lowercase(), 1 => a.to_uppercase(), 2 => a.clone(), 3 => a.chars().map(|c| if c.is_lowercase() { c.to_uppercase().collect::<String>() } else { c.to_lowercase().collect() }).collect(), _ => a.to_lowercase().to_uppercase() };
            if r.chance(1, 2) { vec![s(&a), s(&b)] } else { vec![s(&b), s(&a)] } }
        "same_text" => vec![s(*r.pick(&["abc", "ABC", "aBc", "ÄÖ", "äö", "straße", "STRASSE", "", "x"])), s(*r.pick(&["abc", "ABC", "Abc", "äÖ", "äö", "strasse", "", "X"]))],
        "split" => { let h = s(*r.pick(HAYS)); let n = gen_needle(r, &h); vec![h, n] }
        "split_csv" => { let h = s(*r.pick(HAYS)); if r.chance(1, 2) { vec![h] } else { vec![h, s(*r.pick(&[";", ",", "", "ab", "ä", "\"", " "]))] } }
        "abs" | "arc_tan" | "cos" | "exp" | "frac" | "ln" | "round" | "sin" | "sqrt" | "trunc" | "int_to_hex" | "even" | "odd" | "date" | "time" =>
            vec![num(if r.chance(1, 3) { (r.below(2000001) as f64) - 1000000.0 } else { gen_num(r) })],
        "pow" => { let base = |r: &mut Rng| if r.chance(1, 2) { gen_num(r) } else { (r.below(40_000_000) as f64) / (*r.pick(&[100.0, 1000.0, 7.0, 10000.0, 3.0])) - (if r.chance(1, 4) { 1000.0 } else { 0.0 }) };
            if r.chance(1, 2) { vec![num(base(r))] } else { vec![num(base(r)), num(if r.chance(1, 2) { *r.pick(&[2.0, 1.0 / 3.0, 0.5, 3.0, -1.0, 0.25, 1.5, -0.5, 1.0, 0.0, 2.0 / 3.0, 0.1]) } else { gen_num(r) })] } }
        "random" => if r.chance(1, 2) { vec![] } else { vec![num(gen_num(r))] },
        "choice" => { let n = r.below(4); (0..n).map(|_| gen_small_val(r)).collect() }
        "year" | "month" | "day" | "hour" | "minute" | "second" | "millisecond" | "day_of_week" | "is_leap_year" | "date_to_rfc2822" | "date_to_rfc3339" => vec![num(gen_date_num(r))],
        "inc_month" => if r.chance(1, 3) { vec![num(gen_date_num(r))] } else { vec![num(gen_date_num(r)), num(match r.below(4) { 0 => gen_num(r), 1 => *r.pick(&[0.0, 1.0, -1.0, 12.0, -12.0, 0.5, 1e10, -1e10, 3145716.0]), _ => (r.below(48001) as f64) - 24000.0 })] },
        "encode_date" => { let y = match r.below(4) { 0 => gen_num(r), 1 => *r.pick(&[0.0, 1.0, 9999.0, 10000.0, -1.0, 262142.0, 262143.0, -262143.0, -262144.0, 1900.0, 2000.0, 2100.0, 2024.0]), _ => (1 + r.below(9999)) as f64 };
            vec![num(y), num(match r.below(6) { 0 => gen_num(r), 1 => *r.pick(&[0.0, 13.0, 12.9, -1.0]), _ => (1 + r.below(12)) as f64 }), num(match r.below(6) { 0 => gen_num(r), 1 => *r.pick(&[0.0, 29.0, 30.0, 31.0, 32.0, 28.0]), _ => (1 + r.below(31)) as f64 })] }
        "encode_time" => { let mut v = vec![num(match r.below(6) { 0 => gen_num(r), 1 => *r.pick(&[24.0, -1.0, 23.9, -0.5]), _ => r.below(24) as f64 }),
                num(match r.below(6) { 0 => gen_num(r), 1 => *r.pick(&[60.0, -1.0, 59.9]), _ => r.below(60) as f64 }), num(match r.below(6) { 0 => gen_num(r), 1 => *r.pick(&[60.0, -1.0, 59.0]), _ => r.below(60) as f64 })];
            if r.chance(1, 2) { v.push(num(match r.below(6) { 0 => gen_num(r), 1 => *r.pick(&[1000.0, 999.0, 1999.0, 2000.0, -1.0]), _ => r.below(1000) as f64 })); } v }
        "date_to_string" | "time_to_string" => vec![s(*r.pick(&["%Y-%m-%d", "%H:%M:%S", "%Y-%m-%d %H:%M:%S%.3f", "%d.%m.%Y", "%%", "%Q", "%", "%9999Y", "plain", "", "%A %B", "%+", "%s", "%Y%", "%.3f", "%z", "%:z", "%Z", "%#z", "%Y %z", "%c", "%x %X", "%e %k %l", "%G-W%V-%u", "%j", "%U %W", "%P %p", "%N", "%f", "%3f", "%::z"])), num(gen_date_num(r))],
        // formats WITHOUT a year (or without a day): not enough to determine a date - an error, whatever today's date is
        "string_to_date" if r.chance(1, 8) => { let (t, f) = *r.pick(&[("24.12.", "%d.%m."), ("12-24", "%m-%d"), ("359", "%j"), ("29.02.", "%d.%m."), ("2024", "%Y"), ("03", "%m"), ("Mon", "%a"), ("12-24 10", "%m-%d %H")]); vec![s(t), s(f)] }
        "string_to_date" => vec![s(&match r.below(5) { 0 => r.pick(&["2024-02-30", "2023-02-29", "2024-02-29", "0000-01-01", "9999-12-31", "2024-13-01", "2024-00-10", "2024-01-00", "2024-1-5", " 2024-01-05", "garbage", ""]).to_string(),
            _ => format!("{:04}-{:02}-{:02}", r.below(10000), r.below(14), r.below(33)) })],
        "string_to_time" => vec![s(&match r.below(5) { 0 => r.pick(&["23:59:60", "24:00:00", "00:60:00", "1:2:3", "12:00", "", "12:00:00.5"]).to_string(), _ => format!("{:02}:{:02}:{:02}", r.below(25), r.below(61), r.below(61)) })],
        "string_to_datetime" if r.chance(1, 5) => { let (y, m, d) = *r.pick(DST_DAYS); vec![s(&format!("{:04}-{:02}-{:02} {:02}:{:02}:{:02}", y, m, d, 1 + r.below(3), r.below(60), r.below(60)))] }
        "string_to_datetime" => vec![s(&match r.below(5) { 0 => r.pick(&["2016-12-31 23:59:60", "2024-02-30 00:00:00", "2024-02-29T00:00:00", ""]).to_string(),
            _ => format!("{:04}-{:02}-{:02} {:02}:{:02}:{:02}", r.below(10000), 1 + r.below(12), 1 + r.below(29), r.below(24), r.below(60), r.below(61)) })],
        "date_from_rfc2822" => vec![s(&gen_rfc2822(r))],
        "date_from_rfc3339" => vec![s(&gen_rfc3339(r))],
        n if n.starts_with("re_") && r.chance(1, 8) => {
            // an INVALID pattern padded to 1..100 bytes with characters of 1-4 bytes (what an error message that abbreviates the pattern would cut)
            let mut p = String::new(); let target = 1 + r.usize(100);
            while p.len() < target { p.push(*r.pick(&['a', 'b', '1', ' ', 'é', 'ß', '日', '𝄞', 'x', '-'])); }
            p.push_str(*r.pick(&["(", "[", "a{2,1}", "*", "\\", "(?P<", "[z-a]"]));
            let h = s(*r.pick(&["", "abc", "日本"]));
            match n { "re_replace" => vec![h, s(&p), s("x")], _ => vec![h, s(&p)] }
        }
        n if n.starts_with("re_") && r.chance(1, 30) => {
            // groups (or classes / repetitions) nested 51 … 60 000 levels: an error value, never a stack overflow
            let k = *r.pick(&[51usize, 60, 100, 500, 2000, 20000, 60000]); let (o, c) = *r.pick(&[("(", ")"), ("(?:", ")"), ("(a|", ")"), ("(", ")*")]);
            let p = format!("{}a{}", o.repeat(k), c.repeat(k)); let h = s("aaa");
            match n { "re_replace" => vec![h, s(&p), s("x")], _ => vec![h, s(&p)] }
        }
        n if n.starts_with("re_") => {
            let h = s(*r.pick(&["", "abc", "aaa", "a1b22c333", "Hello World", "äbc", "foo@bar.com", "2024-01-05"]));
            let p = sp(r, &["a", "a*", "(a)(b)?", "[0-9]+", "\\d+", "(", "a{1000000}", "^", "$", "b|c", "(?P<y>\\d{4})-(\\d\\d)", "\\b", ".", "", "((((((((((a))))))))))", "[", "\\", "(?i)HELLO", "ä"]);
            match n { "re_replace" => { let mut v = vec![h, p]; if r.chance(2, 3) { v.push(s(*r.pick(&["", "x", "$1", "$0$0", "${y}", "$"]))); if r.chance(1, 2) { v.push(gen_idx(r)); } } v } _ => vec![h, p] }
        }
        _ => { let n = r.below(4); (0..n).map(|_| gen_small_val(r)).collect() }
    }
}

pub fn gen_call_line(r: &mut Rng, name: &str, prefix: &str) -> String {
    let args = gen_args(r, name);
    let mut p = vec![format!("{} {} {} {}", prefix, STRING_OFFSET, hex(name), args.len())];
    p.extend(args.iter().map(show_in));
    p.join(" ")
}
pub fn builtin_names() -> Vec<String> { builtins().into_iter().map(|f| f.name).collect() }

/// `dcall`: calls with an argument count inside the registered arity and arguments of the DOCUMENTED kinds only
/// (C10: such a call must never answer WrongParameterCount)
pub fn gen_dcall_line(r: &mut Rng, f: &slac::function::Function) -> String {
    use slac::function::Arity;
    let (masks, variadic_doc) = crate::tables::doc_masks(&f.params);
    let n = match f.arity { Arity::Polyadic { required, optional } => required + r.usize(optional + 1), Arity::Variadic => 1 + r.usize(4), Arity::None => 0 };
    let args: Vec<V> = (0..n).map(|p| {
        let mask = if variadic_doc { 15 } else { masks.get(p).copied().unwrap_or(15) };
        let kinds: Vec<u32> = (0..4).filter(|k| (mask >> k) & 1 == 1).collect();
        match *r.pick(&kinds) {
            0 => V::Boolean(r.chance(1, 2)),
            1 => if r.chance(1, 4) { s(*r.pick(&["$1", "$0$0", "${1}st", "$$", "a$1b", "$"])) } else if r.chance(1, 2) { s(HAYS[r.usize(HAYS.len())]) } else { V::String(gen_str(r)) },
            2 => if r.chance(1, 2) { num(*r.pick(IDX)) } else { num(gen_num(r)) },
            _ => { let k = r.below(4); V::Array((0..k).map(|_| gen_small_val(r)).collect()) }
        }
    }).collect();
    let mut p = vec![format!("call {} {} {}", STRING_OFFSET, hex(&f.name), args.len())];
    p.extend(args.iter().map(show_in));
    p.join(" ")
}

// ---------------------------------------------------------------- the two impure builtins (random, choice)
/// what `random` / `choice` may answer for these arguments (the relational spec; mirror of SlacModel/Nondet.lean)
pub fn nd_allowed(name: &str, args: &[V], ans: &Result<V, slac::stdlib::NativeError>) -> bool {
    use slac::stdlib::NativeError as NE;
    match name {
        "choice" => {
            let vs: Vec<V> = match args { [V::Array(v)] => v.clone(), _ => args.to_vec() };
            match ans { Ok(v) => vs.iter().any(|x| show(x) == show(v)), Err(NE::WrongParameterType) => vs.is_empty(), Err(_) => false }
        }
        "random" => {
            let m = match args.first() { None => 1.0, Some(V::Number(m)) => *m, Some(_) => return matches!(ans, Err(NE::WrongParameterType)) };
            match ans { Ok(V::Number(x)) => if m == 0.0 { *x == 0.0 } else if m.is_nan() { x.is_nan() } else if m.is_infinite() { x.is_nan() || *x == m }
                        // `(u as f64 * m) / 2^64`: the product overflows to an infinity of m's sign once |m| > f64::MAX / 2^64
                        else { (x.min(m) >= m.min(0.0) && x.max(m) <= m.max(0.0)) || (m.abs() > f64::MAX / 18446744073709551616.0 && x.is_infinite() && x.signum() == m.signum()) }, _ => false }
        }
        _ => false,
    }
}
/// `nd <hexname> <n> <args…> || <one answer observed at generation time>`
pub fn gen_nd_line(r: &mut Rng) -> String {
    let name = if r.chance(1, 2) { "random" } else { "choice" };
    let args: Vec<V> = match name {
        "random" => match r.below(6) { 0 => vec![], 1 => vec![gen_small_val(r)], 2 => vec![num(*r.pick(&[0.0, -0.0, 1.0, -1.0, 1e308, -1e308, 5e-324, f64::INFINITY, f64::NEG_INFINITY, f64::NAN, 2.0f64.powi(64), 0.1]))],
                             3 => vec![num(gen_num(r)), gen_small_val(r)], _ => vec![num(gen_num(r))] },
        _ => match r.below(5) { 0 => vec![], 1 => vec![V::Array(vec![])], 2 => { let n = 1 + r.below(6); vec![V::Array((0..n).map(|_| gen_small_val(r)).collect())] }
                             3 => vec![V::Array(vec![V::Array(vec![num(1.0)])])], _ => { let n = 1 + r.below(5); (0..n).map(|_| gen_small_val(r)).collect() } },
    };
    let f = builtins().into_iter().find(|f| f.name == name).unwrap();
    let ans = (f.func)(&args);
    format!("nd {} {} {} || {}", hex(name), args.len(), args.iter().map(show_in).collect::<Vec<_>>().join(" "), show_nres(&ans)).replace("  ", " ")
}
/// runs the builtin 8 more times; every answer must be allowed by the relational spec → `member` | `violation <answer>`
pub fn run_nd(t: &mut Toks) -> Option<String> {
    let name = t.name()?; let n = t.usize()?;
    let mut args = vec![]; for _ in 0..n { args.push(t.value()?); }
    let f = builtins().into_iter().find(|f| f.name == name)?;
    if f.pure { return Some("violation registered-pure".into()); }
    for _ in 0..8 { let a = (f.func)(&args); if !nd_allowed(&name, &args, &a) { return Some(format!("violation {}", show_nres(&a))); } }
    Some("member".into())
}
