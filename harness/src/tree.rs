//! opt / chkvf / chkbool / json streams (tree functions other than execute) and the env-history generator.
use crate::codec::*;
use crate::env::*;
use crate::gen::*;
use crate::lang::same_expr;
use crate::rng::Rng;

use slac::{check_boolean_result, check_variables_and_functions, execute, optimize, Expression as E, Operator as O, Value as V};

fn nodes(e: &E) -> usize {
    match e {
        E::Unary { right, .. } => 1 + nodes(right),
        E::Binary { left, right, .. } => 1 + nodes(left) + nodes(right),
        E::Ternary { left, middle, right, .. } => 1 + nodes(left) + nodes(middle) + nodes(right),
        E::Array { expressions } => 1 + expressions.iter().map(nodes).sum::<usize>(),
        E::Call { params, .. } => 1 + params.iter().map(nodes).sum::<usize>(),
        _ => 1,
    }
}
fn is_lit(e: &E) -> bool { matches!(e, E::Literal { .. }) }
/// the property's own notion of a constant-foldable node (C06), evaluated on the real environment
fn foldable(env: &EnvDesc, e: &E) -> bool {
    match e {
        E::Unary { right, .. } => is_lit(right),
        E::Binary { left, right, .. } => is_lit(left) && is_lit(right),
        E::Array { expressions } => expressions.iter().all(is_lit),
        E::Ternary { left, operator, .. } => *operator == O::TernaryCondition && is_lit(left),
        E::Call { name, params } => (name == "if_then" && params.len() == 3)
            || (params.iter().all(is_lit) && env.pure_within_arity(name, params.len())),
        _ => false,
    }
}
fn any_foldable(env: &EnvDesc, e: &E) -> bool {
    if foldable(env, e) { return true; }
    match e {
        E::Unary { right, .. } => any_foldable(env, right),
        E::Binary { left, right, .. } => any_foldable(env, left) || any_foldable(env, right),
        E::Ternary { left, middle, right, .. } => any_foldable(env, left) || any_foldable(env, middle) || any_foldable(env, right),
        E::Array { expressions } => expressions.iter().any(|x| any_foldable(env, x)),
        E::Call { params, .. } => params.iter().any(|x| any_foldable(env, x)),
        _ => false,
    }
}
fn has_if3(e: &E) -> bool {
    match e {
        E::Call { name, params } => (name == "if_then" && params.len() == 3) || params.iter().any(has_if3),
        E::Unary { right, .. } => has_if3(right),
        E::Binary { left, right, .. } => has_if3(left) || has_if3(right),
        E::Ternary { left, middle, right, .. } => has_if3(left) || has_if3(middle) || has_if3(right),
        E::Array { expressions } => expressions.iter().any(has_if3),
        _ => false,
    }
}

/// `opt <env> <expr>` →
///   `<ok|err E> <tree'> ; <trace of optimize> ; pre <res> ; post <res> ; chk <T/F resolved-before> <T/F resolved-after> ; fold <T/F any foldable node left> ; idem <T/F> ; nodes <n'> <n> ; if3 <T/F>`
pub fn run_opt(t: &mut Toks) -> Option<String> {
    let d = EnvDesc::parse(t)?; let e = t.expr()?;
    let env = RecEnv::new(d.build()?);
    let pre = execute(&env.inner, &e);
    let chk0 = check_variables_and_functions(&env.inner, &e).is_ok();
    let mut e2 = e.clone();
    let r = optimize(&env, &mut e2);
    let trace = env.trace();
    let pur = env.all_pure_calls(&d);
    let post = execute(&env.inner, &e2);
    let chk1 = check_variables_and_functions(&env.inner, &e2).is_ok();
    let fold = any_foldable(&d, &e2);
    let mut e3 = e2.clone();
    let idem = optimize(&env.inner, &mut e3).is_ok() && same_expr(&e2, &e3);
    let status = match &r { Ok(()) => "ok".to_string(), Err(err) => format!("err {}", show_err(err)) };
    Some(format!("{} {} ; {} ; pre {} ; post {} ; chk {} {} ; fold {} ; idem {} ; nodes {} {} ; if3 {} ; pur {}", status, show_expr_out(&e2), trace,
        show_res(&pre), show_res(&post), tf(chk0), tf(chk1), tf(fold), tf(idem), nodes(&e2), nodes(&e), tf(has_if3(&e)), tf(pur)))
}
fn tf(b: bool) -> &'static str { if b { "T" } else { "F" } }

/// `chkvf <env> <expr>` → `<ok|err ..> ; <execute result>`
pub fn run_chkvf(t: &mut Toks) -> Option<String> {
    let d = EnvDesc::parse(t)?; let e = t.expr()?;
    let env = d.build()?;
    let c = check_variables_and_functions(&env, &e);
    let r = execute(&env, &e);
    Some(format!("{} ; {}", match c { Ok(()) => "ok".to_string(), Err(err) => format!("err {}", show_err(&err)) }, show_res(&r)))
}
/// variables and calls standing in result position: the node itself, or the branches of a conditional
fn result_pos<'a>(e: &'a E, out: &mut Vec<&'a E>) {
    match e {
        E::Variable { .. } | E::Call { .. } => out.push(e),
        E::Ternary { middle, right, operator: O::TernaryCondition, .. } => { result_pos(middle, out); result_pos(right, out); }
        _ => {}
    }
}
/// `chkbool <env> <expr>` → `<ok|err ..> ; <execute result> ; rp <T|F>`
/// rp = every result-position variable/call that evaluates successfully yields a Boolean (the property's proviso)
pub fn run_chkbool(t: &mut Toks) -> Option<String> {
    let d = EnvDesc::parse(t)?; let e = t.expr()?;
    let env = d.build()?;
    let c = check_boolean_result(&e);
    let r = execute(&env, &e);
    let mut rp = vec![]; result_pos(&e, &mut rp);
    let proviso = rp.iter().all(|x| match execute(&env, x) { Ok(V::Boolean(_)) => true, Ok(_) => false, Err(_) => true });
    Some(format!("{} ; {} ; rp {}", match c { Ok(()) => "ok".to_string(), Err(err) => format!("err {}", show_err(&err)) }, show_res(&r), tf(proviso)))
}

// ---------------------------------------------------------------- JSON
fn canon_json(j: &serde_json::Value) -> String {
    use serde_json::Value as J;
    match j {
        J::Null => "null".into(),
        J::Bool(b) => b.to_string(),
        J::Number(n) => if let Some(i) = n.as_i64() { if n.is_f64() { format!("F{:016x}", n.as_f64().unwrap().to_bits()) } else { format!("I{}", i) } }
                        else if let Some(u) = n.as_u64() { format!("I{}", u) } else { format!("F{:016x}", n.as_f64().unwrap().to_bits()) },
        J::String(s) => format!("\"{}\"", hex(s)),
        J::Array(a) => format!("[{}]", a.iter().map(canon_json).collect::<Vec<_>>().join(",")),
        J::Object(o) => { let mut kv: Vec<String> = o.iter().map(|(k, v)| format!("{}:{}", k, canon_json(v))).collect(); kv.sort(); format!("{{{}}}", kv.join(",")) }
    }
}
/// `json <expr>` → `<canonical JSON value> ; <value route: same|differs|err> ; <text route: same|differs|err>`
pub fn run_json(t: &mut Toks) -> Option<String> {
    let e = t.expr()?;
    let jv = serde_json::to_value(&e);
    let (canon, via_value) = match &jv {
        Ok(j) => (canon_json(j), match serde_json::from_value::<E>(j.clone()) { Ok(e2) => if same_expr(&e, &e2) { "same" } else { "differs" }, Err(_) => "err" }),
        Err(_) => ("err".into(), "err"),
    };
    let (via_text, text) = match serde_json::to_string(&e) {
        Ok(s) => (match serde_json::from_str::<E>(&s) { Ok(e2) => if same_expr(&e, &e2) { "same" } else { "differs" }, Err(_) => "err" }, hex(&s)),
        Err(_) => ("err", "-".into()),
    };
    Some(format!("{} ; {} ; {} ; text {}", canon, via_value, via_text, text))
}
/// `jsonin <hex json text>` → deserialised tree or err (foreign JSON: integers, key order, unknown tags)
pub fn run_jsonin(t: &mut Toks) -> Option<String> {
    let s = t.name()?;
    Some(match serde_json::from_str::<E>(&s) { Ok(e) => format!("ok {}", show_expr_out(&e)), Err(_) => "err".into() })
}

/// JSON text as ANOTHER system would write the same document: floats that are whole numbers as integer tokens, exponent spellings, and
/// integer tokens at the limits of i64 / u64 and beyond
pub fn respell_numbers(r: &mut Rng, text: &str) -> String {
    const EDGE: &[&str] = &["-9223372036854775808", "9223372036854775807", "18446744073709551615", "18446744073709551616", "-9223372036854775809", "9007199254740993", "-9007199254740993",
        "-0", "0", "1e400", "-1e400", "1E3", "1e-400", "0.1e1", "123456789012345678901234567890", "-1", "4294967296", "2147483648", "-2147483649"];
    let b: Vec<char> = text.chars().collect(); let mut out = String::new(); let mut i = 0; let mut in_str = false;
    while i < b.len() {
        let c = b[i];
        if in_str { out.push(c); if c == '\\' && i + 1 < b.len() { out.push(b[i + 1]); i += 1; } else if c == '"' { in_str = false; } i += 1; continue; }
        if c == '"' { in_str = true; out.push(c); i += 1; continue; }
        if c == '-' || c.is_ascii_digit() {
            let mut j = i; while j < b.len() && (b[j].is_ascii_digit() || matches!(b[j], '-' | '+' | '.' | 'e' | 'E')) { j += 1; }
            let tok: String = b[i..j].iter().collect();
            out.push_str(&match r.below(6) { 0 => (*r.pick(EDGE)).to_string(), 1 | 2 => tok.strip_suffix(".0").map(|x| x.to_string()).unwrap_or(tok), 3 => tok.replace("e", "E"), _ => tok });
            i = j; continue;
        }
        out.push(c); i += 1;
    }
    out
}

// ---------------------------------------------------------------- generators
pub fn gen_opt_tree(r: &mut Rng, depth: u32, ill: bool) -> E {
    // trees that mix foldable (all-literal) sub-trees with variables and pure/impure calls
    if depth == 0 || r.chance(1, 5) {
        return match r.below(8) {
            0..=3 => E::Literal { value: gen_small_val(r) },
            4 | 5 => E::Variable { name: { let n = *r.pick(VAR_NAMES); respell(r, n) } },
            _ => E::Call { name: (*r.pick(&["k", "zero", "bad", "ibad", "cnt", "nofn", "ks"])).to_string(), params: vec![] },
        };
    }
    let d = depth - 1;
    // left-nested chains of ONE arithmetic/logical operator over variables and number literals: `x + 1 + 2`, `2 * x * 0.1 * 10`
    // (what an algebraic "simplification" of the optimizer would rewrite), with magnitudes where grouping matters
    if r.chance(1, 12) {
        let op = *r.pick(&[O::Plus, O::Multiply, O::Minus, O::Divide, O::And, O::Or, O::Plus, O::Multiply]);
        let atom = |r: &mut Rng| if r.chance(1, 3) { E::Variable { name: (*r.pick(&["a", "b", "x", "u"])).to_string() } }
            else { E::Literal { value: V::Number(*r.pick(&[1.0, 2.0, 0.1, 0.2, 10.0, 1e16, 1e308, 0.5, 3.0, -1.0, 0.0])) } };
        let mut e = if r.chance(2, 3) { E::Variable { name: (*r.pick(&["a", "b", "x", "u"])).to_string() } } else { atom(r) };
        for _ in 0..(2 + r.below(3)) { e = E::Binary { left: Box::new(e), right: Box::new(atom(r)), operator: op }; }
        return e;
    }
    // a pure call with literal arguments whose RESULT is not equal to itself (NaN, or an array holding one): "fold it again and compare" never settles
    if r.chance(1, 40) {
        let nan = E::Literal { value: V::Number(f64::NAN) };
        return match r.below(4) { 0 => E::Call { name: "first".into(), params: vec![nan] }, 1 => E::Call { name: "opt".into(), params: vec![E::Literal { value: V::Number(1.0) }, nan] },
            2 => E::Call { name: "last".into(), params: vec![E::Literal { value: V::Boolean(true) }, E::Literal { value: V::Array(vec![V::Number(f64::NAN)]) }] }, _ => E::Call { name: "if_then".into(), params: vec![E::Literal { value: V::Boolean(true) }, nan] } };
    }
    // a variadic call with 100+ literal arguments (arity limits)
    if r.chance(1, 60) {
        let k = 95 + r.below(40);
        return E::Call { name: (*r.pick(&["cnt", "last", "mk"])).to_string(), params: (0..k).map(|i| E::Literal { value: V::Number(i as f64) }).collect() };
    }
    match r.below(14) {
        0 | 1 => E::Unary { right: Box::new(gen_opt_tree(r, d, ill)), operator: if ill && r.chance(1, 4) { *r.pick(&OPS) } else { *r.pick(&UNOPS) } },
        2..=5 => E::Binary { left: Box::new(gen_opt_tree(r, d, ill)), right: Box::new(gen_opt_tree(r, d, ill)), operator: if ill && r.chance(1, 5) { *r.pick(&OPS) } else { *r.pick(&BINOPS) } },
        6 | 7 => E::Ternary { left: Box::new(gen_opt_tree(r, d, ill)), middle: Box::new(gen_opt_tree(r, d, ill)), right: Box::new(gen_opt_tree(r, d, ill)),
                          operator: if ill && r.chance(1, 4) { *r.pick(&OPS) } else { O::TernaryCondition } },
        8 => { let n = r.below(3); E::Array { expressions: (0..n).map(|_| gen_opt_tree(r, d, ill)).collect() } }
        9 | 10 => { let n = if r.chance(3, 4) { 3 } else { 2 + r.below(3) }; E::Call { name: if r.chance(5, 6) { "if_then".into() } else { "IF_THEN".into() }, params: (0..n).map(|_| gen_opt_tree(r, d, ill)).collect() } }
        _ => { let name = { let n = *r.pick(FN_NAMES); if r.chance(1, 3) { respell(r, n) } else { n.to_string() } }; let n = r.below(4);
               E::Call { name, params: (0..n).map(|_| gen_opt_tree(r, d, ill)).collect() } }
    }
}

/// env history: ops over 2-3 base names x 3 spellings x {var, fn}
pub fn gen_env_line(r: &mut Rng, len: usize, wide: bool) -> String {
    let names: &[&str] = if wide { &["a", "A", "b", "B", "ab", "Ab", "AB", "ü", "Ü", "x_1", "X_1", "é", "É", "ж", "Ж", "long", "LONG", "Long", "q", "if_then",
        // special casing: titlecase digraphs, sharp s, dotted capital I, final sigma, ligature
        "ǅungla", "ǆungla", "ǄUNGLA", "straße", "STRASSE", "İx", "i\u{307}x", "ΟΔΟΣ", "οδος", "οδοσ", "ﬁn", "FIN", "Ⅷ", "ⅷ",
        // names of standard-library functions in several spellings: host functions registered before / after extend_environment
        "max", "MAX", "Length", "length", "abs", "Abs", "bool", "IF_THEN",
        // names with surrounding / inner white space and other characters a "normalising" key function might strip: distinct keys, all of them
        " a", "a ", "\ta", "A\n", " long", "long ", "x _1", "max ", " MAX", "a\u{a0}", "\u{feff}a", "a.", "a-b", "a_b"] } else { &["a", "A", "b", "B"] };
    let behs = ["first", "cnt", "fail", "arr", "k0", "k1", "k2", "k3", "last"];
    let mut p = vec!["env".to_string()];
    let ext_at = if wide && r.chance(1, 3) { Some(r.usize(len)) } else { None };
    let ext2_at = if ext_at.is_some() && r.chance(1, 3) { Some(r.usize(len)) } else { None };
    for i in 0..len {
        if Some(i) == ext_at || Some(i) == ext2_at { p.push(ext_op()); }
        let n = hex(*r.pick(names));
        let op = match r.below(14) {
            0 | 1 => format!("av {} {}", n, show_in(&gen_small_val(r))),
            2 => format!("rv {}", n),
            3 => if r.chance(1, 3) { "cv".to_string() } else { format!("rv {}", n) },
            4 | 5 => format!("af {} {} {} {} {} {}", n, r.pick(&['P', 'V', 'N']), r.below(3), r.below(3), r.below(2), r.pick(&behs)),
            6 => format!("rf {}", n),
            7 => format!("gv {}", n),
            8 => format!("ve {}", n),
            9 => { let k = r.below(3); let mut s = format!("cl {} {}", n, k); for _ in 0..k { s.push(' '); s.push_str(&show_in(&gen_small_val(r))); } s }
            10 => format!("fe {} {}", n, if r.chance(1, 6) { *r.pick(&[98u64, 99, 100, 101, 250, 1000]) } else { r.below(5) }),
            11 => "lf".to_string(),
            12 => { let k = r.below(3); let mut s = format!("afs {}", k); for _ in 0..k { s.push_str(&format!(" {} {} {} {} {} {}", hex(*r.pick(names)), r.pick(&['P', 'V', 'N']), r.below(3), r.below(3), r.below(2), r.pick(&behs))); } s }
            _ => format!("gv {}", n),
        };
        p.push(op);
    }
    p.join(" ")
}
/// `ext k <descriptions>`: extend_environment, with what it registers spelled out for the model (name, arity, purity as the RUNNING crate
/// declares them in `builtins()`; behaviour `b:<name>` = the model of that builtin)
pub fn ext_op() -> String {
    use slac::function::Arity;
    let bs = slac::stdlib::builtins();
    let mut s = format!("ext {}", bs.len());
    for f in &bs {
        let (k, req, opt) = match f.arity { Arity::Polyadic { required, optional } => ('P', required, optional), Arity::Variadic => ('V', 0, 0), Arity::None => ('N', 0, 0) };
        s.push_str(&format!(" {} {} {} {} {} b:{}", hex(&f.name), k, req, opt, if f.pure { 1 } else { 0 }, f.name));
    }
    s
}
/// exhaustive small histories: index i encodes a sequence of `len` ops from a fixed alphabet, each followed by all lookups
pub fn env_alphabet() -> Vec<String> {
    let mut ops = vec![];
    for n in ["a", "A", "b"] {
        let h = hex(n);
        ops.push(format!("av {} B1", h)); ops.push(format!("av {} N0000000000000000", h)); ops.push(format!("rv {}", h));
        ops.push(format!("af {} P 1 1 1 first", h)); ops.push(format!("af {} V 0 0 0 cnt", h)); ops.push(format!("rf {}", h));
    }
    ops.push("cv".into());
    ops
}
pub fn env_probe() -> String {
    let mut p = vec![];
    for n in ["a", "A", "b", "B"] { let h = hex(n); p.push(format!("gv {} ve {} fe {} 1 fe {} 0 cl {} 1 S78", h, h, h, h, h)); }
    p.push("lf".into());
    p.join(" ")
}
pub fn env_exhaustive(mut i: u64, len: usize) -> String {
    let alpha = env_alphabet(); let probe = env_probe();
    let mut p = vec!["env".to_string()];
    for _ in 0..len { p.push(alpha[(i % alpha.len() as u64) as usize].clone()); p.push(probe.clone()); i /= alpha.len() as u64; }
    p.join(" ")
}
pub fn unused(_: &V) {}
