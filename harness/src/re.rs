//! `re` stream (wrapper correspondence with shipped raw engine answers) and `relaw` (cross-function laws, C18).
use crate::codec::*;
use crate::rng::Rng;
use regex_lite::Regex;
use slac::stdlib::common;
use slac::stdlib::regex as sre;
use slac::Value as V;

const FNS: [&str; 4] = ["re_is_match", "re_find", "re_capture", "re_replace"];
const HAYS: &[&str] = &["", "abc", "aaa", "a1b22c333", "Hello World", "äbc", "foo@bar.com", "2024-01-05", "aXbXc", "x", "a.b", "a+b+c", "ab ab", "ßΣ",
    "C:\\Qt\\bin", "\\server\\Queue a\\Eb", "x\\d\\b", "total 12USD", "testing tested", "key=value", "10-20 30-40",
    "the color red", "the colour red", "ac", "a", "xyz", "abbc", "Helo World", "teing", "xz", "f@", "224", "ab", "HELO"];
const PATS: &[&str] = &["a", "a*", "(a)(b)?", "[0-9]+", "\\d+", "(", "a{1000000}", "^", "$", "b|c", "(?P<y>\\d{4})-(\\d\\d)", "\\b", ".", "", "((((a))))", "[", "\\",
    "(?i)HELLO", "ä", "a|", "(x)?", "\\w+", "[a-c]{2}", "b*?", "(a)|(b)", "\\.", "X", "(?:a)(b)", "*",
    "\\B(USD|EUR)", "\\B(ing|ed)", "\\b=(\\w+)", "\\b-(\\d+)", "\\B(b)", "\\b(\\w)",
    // a literal prefix whose LAST character is made optional by a counted repetition with minimum 0 (a "required literal" prefilter gets these wrong),
    // optional literals of every other spelling, literal prefixes before alternations and classes
    "colou{0,1}r", "ab{0,2}", "ab{0}", "ab{0,}c", "ab?c", "ab*c", "ab??c", "Hel{0}lo", "Hello{0,3} W", "te(st){0,1}ing", "ab{1,2}", "xy{0}z|abc", "fo{0,}@", "20{0,1}24", "a\\.{0,1}b", "(?i)hel{0,1}lo"];
const REPS: &[&str] = &["", "x", "$1", "$0$0", "${y}", "$", "-", "yy", "$$"];
const LITS: &[&str] = &["", "a", "ab", "a.b", "a+b", "X", ".", "(", "[", "\\", "ä", "b c", "$", "^", "aa", "*", "C:\\Qt", "\\Q", "\\Queue", "a\\E", "\\d", "\\b", "\\Qt\\b"];

fn s(x: &str) -> V { V::String(x.to_string()) }
fn pk<'a>(r: &mut Rng, xs: &[&'a str]) -> &'a str { xs[r.usize(xs.len())] }

/// raw engine answers for (pattern, haystack, limit, replacement): what the wrappers may consult
fn engine_section(args: &[V]) -> String {
    let (h, p) = match (args.first(), args.get(1)) { (Some(V::String(h)), Some(V::String(p))) => (h, p), _ => return "-".into() };
    let re = match Regex::new(p) { Ok(re) => re, Err(_) => return "err".into() };
    let rep = match args.get(2) { Some(V::String(r)) => r.clone(), _ => String::new() };
    let lim = match args.get(3) { Some(V::Number(n)) => n.floor() as usize, _ => 0 };
    let finds: Vec<String> = re.find_iter(h).map(|m| format!("S{}", hex(m.as_str()))).collect();
    let caps = match re.captures(h) {
        None => "none".to_string(),
        Some(c) => { let v: Vec<String> = c.iter().map(|g| g.map_or("~".to_string(), |m| format!("S{}", hex(m.as_str())))).collect(); format!("some {} {}", v.len(), v.join(" ")) }
    };
    format!("ok {} {} {} {} {} S{}", if re.is_match(h) { "T" } else { "F" }, re.captures_len(), finds.len(), finds.join(" "), caps, hex(&re.replacen(h, lim, rep.as_str())))
        .split_whitespace().collect::<Vec<_>>().join(" ")
}

pub fn gen_re_line(r: &mut Rng) -> String {
    let f = pk(r, &FNS);
    let mut args: Vec<V> = vec![s(pk(r, HAYS)), s(pk(r, PATS))];
    if f == "re_replace" { if r.chance(3, 4) { args.push(s(pk(r, REPS))); if r.chance(1, 2) { args.push(V::Number(*r.pick(&[0.0, 1.0, 2.0, 3.0, 0.5, 1.9, -1.0, 1e300, f64::NAN, f64::INFINITY, 5.0]))); } } }
    if r.chance(1, 10) { let k = r.usize(args.len()); args[k] = crate::gen::gen_small_val(r); }
    if r.chance(1, 15) { args.truncate(r.usize(3)); }
    if r.chance(1, 20) { args.push(crate::gen::gen_small_val(r)); }
    let mut p = vec![format!("re {} {}", hex(f), args.len())];
    p.extend(args.iter().map(show_in));
    format!("{} || {}", p.join(" "), engine_section(&args))
}

pub fn run_re(t: &mut Toks) -> Option<String> {
    let name = t.name()?; let n = t.usize()?;
    let mut args = vec![]; for _ in 0..n { args.push(t.value()?); }
    let r = match name.as_str() { "re_is_match" => sre::is_match(&args), "re_find" => sre::find(&args), "re_capture" => sre::capture(&args), "re_replace" => sre::replace(&args), _ => return None };
    Some(show_nres(&r))
}

pub fn gen_relaw_line(r: &mut Rng) -> String {
    if r.chance(1, 3) { format!("relaw lit {} {} {}", hex(pk(r, HAYS)), hex(pk(r, LITS)), hex(pk(r, &["", "x", "-", "yy"]))) }
    else { format!("relaw pat {} {} {} {}", hex(pk(r, HAYS)), hex(pk(r, PATS)), hex(pk(r, &["", "x", "-", "yy", "ab"])), r.below(6)) }
}
fn arr(r: &Result<V, slac::stdlib::NativeError>) -> Option<Vec<String>> { match r { Ok(V::Array(a)) => a.iter().map(|v| match v { V::String(s) => Some(s.clone()), _ => None }).collect(), _ => None } }
fn st(r: &Result<V, slac::stdlib::NativeError>) -> Option<String> { match r { Ok(V::String(s)) => Some(s.clone()), _ => None } }
fn bo(r: &Result<V, slac::stdlib::NativeError>) -> Option<bool> { match r { Ok(V::Boolean(b)) => Some(*b), _ => None } }

/// the property's cross-function relations, evaluated on the builtins themselves. Answer `ok …` / `viol <law>`.
pub fn run_relaw(t: &mut Toks) -> Option<String> {
    match t.next()? {
        "lit" => {
            let h = t.name()?; let lit = t.name()?; let rep = t.name()?;
            let p = regex_lite::escape(&lit);
            let (hv, pv, lv, rv) = (s(&h), s(&p), s(&lit), s(&rep));
            let m = bo(&sre::is_match(&[hv.clone(), pv.clone()])); let c = bo(&common::contains(&[hv.clone(), lv.clone()]));
            if m.is_none() || m != c { return Some("viol literal-contains".into()); }
            let f = arr(&sre::find(&[hv.clone(), pv.clone()]))?.len() as f64;
            let cnt = match slac::stdlib::builtins().into_iter().find(|f| f.name == "count").map(|f| (f.func)(&[hv.clone(), lv.clone()])) { Some(Ok(V::Number(x))) => x, _ => return Some("viol count-err".into()) };
            if f != cnt { return Some("viol literal-count".into()); }
            if st(&sre::replace(&[hv.clone(), pv.clone(), rv.clone()])) != st(&common::replace(&[hv, lv, rv])) { return Some("viol literal-replace".into()); }
            Some("ok lit".into())
        }
        "pat" => {
            let h = t.name()?; let p = t.name()?; let rep = t.name()?; let lim = t.usize()?;
            let (hv, pv) = (s(&h), s(&p));
            let re = match Regex::new(&p) { Ok(re) => re, Err(_) => {
                // invalid pattern: every wrapper yields an error value
                let all_err = sre::is_match(&[hv.clone(), pv.clone()]).is_err() && sre::find(&[hv.clone(), pv.clone()]).is_err()
                    && sre::capture(&[hv.clone(), pv.clone()]).is_err() && sre::replace(&[hv.clone(), pv.clone()]).is_err();
                return Some(if all_err { "ok invalid".into() } else { "viol invalid-pattern".into() }); } };
            let found = arr(&sre::find(&[hv.clone(), pv.clone()]))?;
            let m = bo(&sre::is_match(&[hv.clone(), pv.clone()]))?;
            if m != !found.is_empty() { return Some("viol ismatch-find".into()); }
            let cap = arr(&sre::capture(&[hv.clone(), pv.clone()]))?;
            if cap.len() != re.captures_len() { return Some("viol capture-length".into()); }
            if found.is_empty() { if cap.iter().any(|c| !c.is_empty()) { return Some("viol capture-empty".into()); } }
            else if cap[0] != found[0] { return Some("viol capture-first".into()); }
            // replace with plain text and limit n rewrites exactly the first n matches re_find reports (all when 0)
            if !rep.contains('$') {
                let spans: Vec<(usize, usize)> = re.find_iter(&h).map(|m| (m.start(), m.end())).collect();
                if spans.len() != found.len() || spans.iter().zip(&found).any(|((a, b), f)| &h[*a..*b] != f.as_str()) { return Some("viol find-spans".into()); }
                let k = if lim == 0 { spans.len() } else { lim.min(spans.len()) };
                let mut out = String::new(); let mut cur = 0;
                for (a, b) in spans.iter().take(k) { out.push_str(&h[cur..*a]); out.push_str(&rep); cur = *b; }
                out.push_str(&h[cur..]);
                let got = if lim == 0 && rep.is_empty() { st(&sre::replace(&[hv.clone(), pv.clone()])) } else { st(&sre::replace(&[hv.clone(), pv.clone(), s(&rep), V::Number(lim as f64)])) };
                if got.as_deref() != Some(out.as_str()) { return Some("viol replace-limit".into()); }
            }
            Some("ok pat".into())
        }
        _ => None,
    }
}
