//! `num` stream: the numeric primitives the model defines from bit patterns, against the hardware / std.
use crate::codec::*;
use crate::rng::Rng;
use crate::gen::*;

fn f(t: &mut Toks) -> Option<f64> { Some(f64::from_bits(u64::from_str_radix(t.next()?, 16).ok()?)) }
fn out(x: f64) -> String { if x.is_nan() { "nan".into() } else { format!("{:016x}", x.to_bits()) } }

pub fn run_num(t: &mut Toks) -> Option<String> {
    let op = t.next()?;
    Some(match op {
        "trunc" => out(f(t)?.trunc()),
        "fract" => out(f(t)?.fract()),
        "round" => out(f(t)?.round()),
        "abs" => out(f(t)?.abs()),
        "neg" => out(-f(t)?),
        "sqrt" => out(f(t)?.sqrt()),
        "add" => { let a = f(t)?; let b = f(t)?; out(a + b) }
        "sub" => { let a = f(t)?; let b = f(t)?; out(a - b) }
        "mul" => { let a = f(t)?; let b = f(t)?; out(a * b) }
        "div" => { let a = f(t)?; let b = f(t)?; out(a / b) }
        "rem" => { let a = f(t)?; let b = f(t)?; out(a % b) }
        "pcmp" => { let a = f(t)?; let b = f(t)?; match a.partial_cmp(&b) { None => "none".into(), Some(o) => format!("{}", o as i8) } }
        "eq" => { let a = f(t)?; let b = f(t)?; format!("{}", a == b) }
        "usize" => format!("{}", f(t)? as usize),
        "u32" => format!("{}", f(t)? as u32),
        "u8" => format!("{}", f(t)? as u8),
        "i32" => format!("{}", f(t)? as i32),
        "i64" => format!("{}", f(t)? as i64),
        "floorusize" => format!("{}", f(t)?.floor() as usize),
        "ofi64" => { let i: i64 = t.next()?.parse().ok()?; out(i as f64) }
        "ofu64" => { let i: u64 = t.next()?.parse().ok()?; out(i as f64) }
        "parse" => { let s = t.name()?; match s.parse::<f64>() { Ok(x) => format!("some {}", out(x)), Err(_) => "none".into() } }
        "display" => hex(&format!("{}", f(t)?)),
        _ => return None,
    })
}

pub fn gen_num_line(r: &mut Rng) -> String {
    let x = gen_num(r); let y = gen_num(r);
    let x = if r.chance(1, 4) { (r.below(1u64 << 53) as f64) * 2f64.powi((r.below(200) as i32) - 150) * if r.chance(1, 2) { -1.0 } else { 1.0 } } else { x };
    let h = |v: f64| format!("{:016x}", v.to_bits());
    const UN: &[&str] = &["trunc", "fract", "round", "abs", "neg", "sqrt", "usize", "u32", "u8", "i32", "i64", "floorusize"];
    const BIN: &[&str] = &["add", "sub", "mul", "div", "rem", "pcmp", "eq"];
    match r.below(10) {
        0..=3 => format!("num {} {}", r.pick(UN), h(x)),
        4..=6 => format!("num {} {} {}", r.pick(BIN), h(x), h(y)),
        7 => if r.chance(1, 2) { format!("num ofi64 {}", r.next() as i64 >> r.below(64)) } else { format!("num ofu64 {}", r.next() >> r.below(64)) },
        8 => {
            let s: String = match r.below(5) {
                0 => r.pick(STRS).to_string(),
                1 => format!("{}", x),
                2 => format!("{:e}", x),
                3 => { let mut t = format!("{:.*}", r.below(25) as usize, x); if t.len() > 400 { t.truncate(400); } t }
                _ => format!("{}{}e{}", r.below(100000), if r.below(2) == 0 { format!(".{}", r.below(1000000)) } else { String::new() }, (r.below(700) as i64) - 350),
            };
            format!("num parse {}", hex(&s))
        }
        _ => format!("num display {}", h(x)),
    }
}
