#!/usr/bin/env python3
"""gen.py <kind> <n> <seed>  -- emits `call` lines for the time string builtins.
kinds: fmt (date_to_string/time_to_string), rfc3339, rfc2822, parse (string_to_* with formats; needs phase-1 file), all"""
import sys, random, struct
sys.path.insert(0, __import__('os').path.dirname(__import__('os').path.abspath(__file__)))
import struct
def S(s): 
    b=s.encode('utf8'); return 'S-' if not b else 'S'+b.hex()
def N(x): return 'N'+struct.pack('>d',float(x)).hex()
def call(name,*args,off=1): return f"call {off} {name.encode().hex()} {len(args)} "+' '.join(args)


SPECS = list("YCymbBhdeaAwuUWGgVjDxFvHkIlPpMSfRTXrcstn%+zZq") + [".f", ".3f", ".6f", ".9f", "3f", "6f", "9f", ":z", "::z", ":::z", "#z"]
BAD = ["Q", "E", "O", "1", "2", "4", "5", "7", "8", "i", "J", "K", "L", "N", "o", ".", ".3", ".4f", ".f3", "3", "6x", "9", ":", "::", ":::", "::::z", "#", "#a", "#Y", "-", "_", "0", "--d", "-#z", "#-d", "é", " ", "\t", "^Y", "Ez", "OY", ":Z", ".2f", ".9", "99f", "*"]
PADS = ["-", "_", "0"]
WS = [" ", "  ", "\t", "\n", " ", " ", "　", "\u0085", " ", " ", "\r\n", "​", "﻿"]
LITS = ["-", "/", ":", ".", ",", "T", "at", "é", "€", "日", "x", "W", "Z", "UTC", "'", "\"", "\\", "(", ")", "+", "0", "12", "%%", "😀", ""]

def rand_date_num(r):
    k = r.random()
    if k < 0.5:
        days = r.randrange(-719528, 2932897)   # years 0..9999
        ms = r.randrange(86400000)
        c = r.random()
        if c < 0.2: ms = 0
        elif c < 0.4: ms = ms // 1000 * 1000
        return (days * 86400000 + ms) / 86400000.0
    if k < 0.6:
        y = r.choice([0, 1, 99, 100, 999, 1000, 1969, 1970, 1999, 2000, 2016, 2020, 2024, 9999])
        # around year boundaries for week computations
        from datetime import date
        base = (date(max(y, 1), 1, 1) - date(1970, 1, 1)).days if y >= 1 else -719528
        return float(base + r.randrange(-10, 376)) + r.choice([0, 0.5, 0.999999, 1 / 86400000.0 * r.randrange(86400000)])
    if k < 0.75:
        days = r.randrange(-96465658 - 3, 95026601 + 3)
        return days + r.random()
    if k < 0.85:
        return r.choice([0.0, -0.0, 1.0, -1.0, 0.5, -0.5, 0.25, 19000.75, -719162.0, -719163.0, -719528.0, -719529.0, -719893.0, -800000.0, 2932896.0, 2932896.99999999,
                         2932897.0, 3000000.0, 5000000.0, -96465658.0, -96465659.0, -96465657.5, 95026601.0, 95026601.999, 95026601.99999999, 95026602.0, 1e10, -1e10, 1e300, -1e300, float('nan'), float('inf'), float('-inf'),
                         106751991167.0, -106751991168.0, 9.3e10, 0.99999999, 0.999999995, 1 - 2**-53, -1e-9, 4e-9, 5.78e-9, 5.79e-9])
    if k < 0.95:
        return r.uniform(-1e6, 4e6)
    return struct.unpack('>d', struct.pack('>Q', r.getrandbits(64)))[0]

def rand_fmt(r):
    n = r.choice([1, 1, 2, 2, 3, 4, 6, 10])
    out = []
    for _ in range(n):
        k = r.random()
        if k < 0.55:
            out.append('%' + r.choice(SPECS))
        elif k < 0.70:
            out.append('%' + r.choice(PADS) + r.choice(SPECS))
        elif k < 0.78:
            out.append('%' + r.choice(BAD))
        elif k < 0.88:
            out.append(r.choice(WS))
        else:
            out.append(r.choice(LITS))
    if r.random() < 0.03: out.append('%')
    return ''.join(out)

COMMON = ["%Y-%m-%d", "%H:%M:%S", "%Y-%m-%d %H:%M:%S", "%Y-%m-%dT%H:%M:%S%.f", "%d.%m.%Y", "%m/%d/%y", "%a, %d %b %Y %T", "%A %e %B %Y", "%G-W%V-%u", "%Y-%j",
          "%Y %U %w", "%Y %W %a", "%I:%M:%S %p", "%l:%M %P", "%s", "%c", "%x %X", "%D %R", "%v", "%F %T%.3f", "%y%m%d%H%M%S", "%Y%m%d", "%C%y-%m-%d", "%H%M%S%3f", "%r", "%s%.9f", "%q %Y %m %d",
          "%Y-%m-%d %H:%M:%S %z", "%+", "%Y-%m-%d %Z", "%g %V %u", "%Y-%m-%dT%H:%M:%S%:z", "%H:%M", "%M:%S", "%Y", "%Y-%m", "%s %S", "%Y-%m-%d %H:%M:%S%.6f", "%Y-%m-%d %H:%M:%S.%f", "%-d/%-m/%Y", "%_d %_m %_H", "%e/%k/%l"]

def gen_fmt(r, n):
    for _ in range(n):
        fmt = r.choice(COMMON) if r.random() < 0.3 else rand_fmt(r)
        name = r.choice(['date_to_string', 'time_to_string'])
        k = r.random()
        if k < 0.94:
            print(call(name, S(fmt), N(rand_date_num(r))))
        elif k < 0.96:
            print(call(name, N(rand_date_num(r)), S(fmt)))
        elif k < 0.98:
            print(call(name, S(fmt)))
        else:
            print(call(name, S(fmt), N(rand_date_num(r)), S("x")))

def mutate(r, s):
    if not s: return r.choice(["", " ", "0", "x"])
    k = r.random()
    i = r.randrange(len(s) + 1)
    if k < 0.25:
        return s[:i] + r.choice(list("0123456789 :-+.TZz,()\\éa€\t −")) + s[i:]
    if k < 0.5:
        return s[:i] + s[i + 1:]
    if k < 0.75 and i < len(s):
        return s[:i] + r.choice(list("0123456789 :-+.TZzx9é")) + s[i + 1:]
    if k < 0.85:
        return s + r.choice([" ", "x", "0", "Z", "\n", "é"])
    if k < 0.95:
        return r.choice([" ", "\t", " ", "0"]) + s
    return s.upper() if r.random() < 0.5 else s.lower()

def gen_rfc3339(r, n):
    for _ in range(n):
        good = r.random() < 0.55
        y = r.choice([r.randrange(10000), r.randrange(1900, 2100), 0, 9999])
        mo = r.choice([r.randrange(1, 13)] * 8 + [0, 13, 99])
        d = r.choice([r.randrange(1, 29)] * 6 + [29, 30, 31, 0, 32])
        h = r.choice([r.randrange(24)] * 8 + [24, 25, 99, 23, 0])
        mi = r.choice([r.randrange(60)] * 8 + [60, 99, 59])
        s = r.choice([r.randrange(60)] * 6 + [59, 60, 60, 61, 99])
        sep = r.choice(['T'] * 5 + ['t', ' ', '_', 'x', '\t', 'é'])
        frac = ''
        k = r.random()
        if k < 0.5:
            nd = r.choice([1, 2, 3, 3, 3, 4, 6, 9, 10, 12, 20, 30])
            frac = '.' + ''.join(r.choice('0123456789') for _ in range(nd))
            if r.random() < 0.2: frac = '.' + r.choice(['999', '9999', '9995', '0005', '0009999', '999999999', '9999999999', '4999', '5', '0', '000', '1', '001', '0000000001'])
        elif k < 0.55:
            frac = r.choice(['.', ',5', '.x', '. 5', '.-1'])
        oh = r.choice([r.randrange(24)] * 5 + [0, 0, 23, 24, 99, 14, 12])
        om = r.choice([r.randrange(60)] * 3 + [0, 0, 0, 30, 45, 59, 60, 99])
        off = r.choice(['Z', 'z', '+%02d:%02d' % (oh, om), '-%02d:%02d' % (oh, om), '+00:00', '-00:00'] * 3 +
                       ['−%02d:%02d' % (oh, om), '+%02d%02d' % (oh, om), '+%02d' % oh, '', 'UTC', ' Z', '+%d:%02d' % (oh % 10, om), '+%02d:%d' % (oh, om % 10), '+%02d:%02d:00' % (oh, om), 'Z ', 'ZZ', '+%02d.%02d' % (oh, om), '+%02d: %02d' % (oh, om), '+ %02d:%02d' % (oh, om)])
        if good:
            mo = r.randrange(1, 13); d = r.randrange(1, 29); h = r.randrange(24); mi = r.randrange(60); s = r.choice([r.randrange(60)] * 9 + [60])
            sep = r.choice(['T', 'T', 't', ' '])
            if frac and not frac[1:].isdigit(): frac = ''
            off = r.choice(['Z', 'z', '+%02d:%02d' % (oh % 24, om % 60), '-%02d:%02d' % (oh % 24, om % 60), '+00:00', '-00:00', '−%02d:%02d' % (oh % 24, om % 60)])
        txt = '%04d-%02d-%02d%s%02d:%02d:%02d%s%s' % (y, mo, d, sep, h, mi, s, frac, off)
        k = r.random()
        if good: k = 0.5 + k / 2
        if k < 0.15: txt = mutate(r, txt)
        elif k < 0.18: txt = mutate(r, mutate(r, txt))
        elif k < 0.20: txt = r.choice(["", "garbage", "2024-02-29", "2024-02-29T00:00:00", "20240229T000000Z", "2024-02-29T00:00Z", "+2024-02-29T00:00:00Z", "-0001-01-01T00:00:00Z", "10000-01-01T00:00:00Z",
                                      "2024-2-29T00:00:00Z", "2024-02-29T0:00:00Z", "éééééééééé", "2024-02-30€€€", "２０２４-02-29T00:00:00Z", "2024-02-29T00:00:00Zé", "2024-02-29 00:00:00 +00:00", "2024-02-29T24:00:00Z", "2016-12-31T23:59:60Z", "2016-12-31T23:59:60.999Z", "2016-12-31T00:00:60+01:00", "9999-12-31T23:59:59-23:59", "0000-01-01T00:00:00+23:59", "9999-12-31T23:59:60.9999-23:59"])
        k = r.random()
        if k < 0.97: print(call('date_from_rfc3339', S(txt)))
        elif k < 0.98: print(call('date_from_rfc3339', S(txt), S(txt)))
        elif k < 0.99: print(call('date_from_rfc3339', N(1.0)))
        else: print(call('date_from_rfc3339'))

DAYS = ['Mon', 'Tue', 'Wed', 'Thu', 'Fri', 'Sat', 'Sun']
MONS = ['Jan', 'Feb', 'Mar', 'Apr', 'May', 'Jun', 'Jul', 'Aug', 'Sep', 'Oct', 'Nov', 'Dec']
def wday(y, m, d):
    from datetime import date
    try:
        if 1 <= y <= 9999: return date(y, m, d).weekday()
        if y == 0: return (date(400, m, d).weekday())
        return (date(y % 400 + 2000, m, d).weekday())
    except Exception: return 0
def casing(r, s):
    k = r.random()
    if k < 0.7: return s
    if k < 0.8: return s.upper()
    if k < 0.9: return s.lower()
    return ''.join(c.upper() if r.random() < 0.5 else c.lower() for c in s)
def sp(r, must=True):
    k = r.random()
    if k < 0.75: return ' '
    if k < 0.85: return r.choice(['  ', '\t', ' \t ', '\n ', '\r\n '])
    if k < 0.93: return r.choice([' ', ' ', '　'])
    return '' if not must or r.random() < 0.5 else r.choice(['_', '-'])
def osp(r):
    return r.choice([''] * 8 + [' ', '  ', '\t'])
def gen_rfc2822(r, n):
    for _ in range(n):
        k = r.random()
        if k < 0.6: y = r.randrange(1900, 2100)
        elif k < 0.7: y = r.randrange(0, 10000)
        elif k < 0.8: y = r.randrange(0, 100)
        elif k < 0.87: y = r.randrange(100, 1000)
        else: y = r.choice([0, 49, 50, 99, 100, 999, 1000, 9999, 10000, 99999, 262142, 262143, 2147483647, 2147483648, 99999999999, 9223372036854775807, 9223372036854775808])
        ytxt = str(y)
        k = r.random()
        if k < 0.15: ytxt = '%02d' % (y % 100); y = y % 100
        elif k < 0.25: ytxt = '%03d' % (y % 1000); y = y % 1000
        elif k < 0.5: ytxt = '%04d' % y
        elif k < 0.55: ytxt = '%05d' % y
        yl = len(ytxt)
        yeff = (y + 2000 if y < 50 else y + 1900) if yl == 2 else (y + 1900 if yl == 3 else y)
        mo = r.randrange(1, 13)
        d = r.choice([r.randrange(1, 29)] * 6 + [29, 30, 31, 0, 32, 99])
        h = r.choice([r.randrange(24)] * 8 + [24, 99])
        mi = r.choice([r.randrange(60)] * 8 + [60, 99])
        s = r.choice([r.randrange(60)] * 6 + [59, 60, 60, 61])
        wd = wday(yeff, mo, d if 1 <= d <= 28 else 1) if d <= 28 else wday(yeff, mo, 1)
        if 1 <= d <= 31:
            try:
                wd = wday(yeff, mo, d)
            except Exception: pass
        k = r.random()
        if k < 0.6: dow = casing(r, DAYS[wd]) + osp(r) * 0 + ','
        elif k < 0.7: dow = casing(r, DAYS[r.randrange(7)]) + ','
        elif k < 0.75: dow = r.choice(['Monday,', 'Mon', 'Mon ,', 'Mo,', 'Xyz,', ',', 'Mon,,', 'Thursday,', 'Sun, Mon,'])
        else: dow = ''
        dtxt = r.choice(['%d' % d] * 3 + ['%02d' % d, '%03d' % d])
        mtxt = casing(r, MONS[mo - 1])
        if r.random() < 0.05: mtxt = r.choice(['January', 'Sept', 'Ma', 'Juné', 'Foo', '12', 'Mai'])
        tm = '%02d%s:%s%02d' % (h, osp(r), osp(r), mi)
        k = r.random()
        if k < 0.8: tm += '%s:%02d' % (osp(r), s)
        elif k < 0.85: tm += ': %02d' % s
        elif k < 0.88: tm += ':%d' % (s % 10)
        if r.random() < 0.03: tm = '%d:%02d:%02d' % (h % 10, mi, s)
        oh = r.choice([r.randrange(24)] * 5 + [0, 0, 23, 24, 99, 14])
        om = r.choice([r.randrange(60)] * 3 + [0, 0, 0, 30, 59, 60, 99])
        zone = r.choice(['+%02d%02d' % (oh, om), '-%02d%02d' % (oh, om), '+0000', '-0000', 'GMT', 'UT', 'Z'] * 3 +
                        ['EST', 'EDT', 'CST', 'CDT', 'MST', 'MDT', 'PST', 'PDT', 'gmt', 'ut', 'z', 'est', 'Pdt', 'A', 'J', 'j', 'M', 'N', 'Y', 'y', 'i', 'k', 'UTC', 'CET', 'BST', 'AB',
                         '+%02d:%02d' % (oh, om), '−%02d%02d' % (oh, om), '+%02d' % oh, '+%02d%d' % (oh, om % 10), '+%02d%02d0' % (oh, om), '', 'GMT+1', '+', '-', 'é', 'Zé', 'GMTé'])
        cm = ''
        k = r.random()
        if k < 0.2:
            cm = r.choice([' (UTC)', '(x)', ' (a (nested) one)', ' (esc \\) aped)', ' (esc \\( aped)', ' (unterminated', ' (a)(b)', ' (a) (b)', ' (a) ', ' ()', ' (', ' )', ' (é€)', ' (\\', ' (\\\\)', ' ((()))', ' (()', '\t(tab)', ' (nbsp)', ' x', ' ', '  ', '\n', ' (a) x', ' (a)\\', ' (\\é)'])
        lead = r.choice([''] * 8 + [' ', '\t', '  '])
        txt = lead + dow + (sp(r, False) if dow else '') + dtxt + sp(r) + mtxt + sp(r) + ytxt + sp(r) + tm + sp(r) + zone + cm
        k = r.random()
        if k < 0.12: txt = mutate(r, txt)
        elif k < 0.14: txt = mutate(r, mutate(r, txt))
        elif k < 0.16: txt = r.choice(["", "garbage", "Tue, 1 Jul 2003 10:52:37 +0200", "1 Jul 2003 10:52:37", "Tue 1 Jul 2003 10:52:37 +0200", "31 Dec 262142 23:59:59 +0000", "31 Dec 262142 23:59:59 -0001", "1 Jan 0 00:00:00 +0000", "1 Jan 00 00:00:00 +0000", "1 Jan 0000 00:00:00 +0001",
                                      "31 Dec 262142 23:59:60 +0000", "31 Dec 2016 23:59:60 +0000", "31 Dec 2016 23:59:60 -2359", "1 Jan 262143 00:00:00 +0000", "29 Feb 2023 00:00:00 Z", "Wed, 29 Feb 2024 00:00:00 Z", "Thu, 29 Feb 2024 00:00:00 Z", "Thu, 29 Feb 24 00:00:00 Z", "Thu, 29 Feb 124 00:00:00 Z"])
        k = r.random()
        if k < 0.97: print(call('date_from_rfc2822', S(txt)))
        elif k < 0.98: print(call('date_from_rfc2822', S(txt), N(0)))
        elif k < 0.99: print(call('date_from_rfc2822', N(1.0)))
        else: print(call('date_from_rfc2822'))

def civil_wd(y, m, d):
    # Monday=0, proleptic Gregorian, any year
    y2 = y - 1 if m <= 2 else y
    era = y2 // 400; yoe = y2 - era * 400; mp = (m + 9) % 12; doy = (153 * mp + 2) // 5 + d - 1; doe = yoe * 365 + yoe // 4 - yoe // 100 + doy
    return (era * 146097 + doe - 719468 + 3) % 7

def gen_rfc2822_valid(r, n):
    for _ in range(n):
        k = r.random()
        if k < 0.5: y = r.randrange(1900, 2100); ytxt = str(y)
        elif k < 0.6: y = r.randrange(0, 10000); ytxt = '%04d' % y
        elif k < 0.7: y = r.randrange(0, 100); ytxt = '%02d' % y
        elif k < 0.8: y = r.randrange(0, 1000); ytxt = '%03d' % y
        elif k < 0.9: y = r.randrange(0, 263000); ytxt = str(y) if y >= 1000 else '%04d' % y
        else: y = r.choice([262142, 262141, 0, 9999, 10000]); ytxt = '%04d' % y
        yl = len(ytxt)
        yeff = (y + 2000 if y < 50 else y + 1900) if yl == 2 else (y + 1900 if yl == 3 else y)
        mo = r.randrange(1, 13)
        d = r.choice([r.randrange(1, 29)] * 6 + [29, 30, 31, 1, 28])
        h = r.randrange(24); mi = r.randrange(60); s = r.choice([r.randrange(60)] * 9 + [60])
        wd = civil_wd(yeff, mo, d)
        k = r.random()
        dow = (casing(r, DAYS[wd]) + ',') if k < 0.6 else ('' if k < 0.9 else casing(r, DAYS[(wd + r.randrange(1, 7)) % 7]) + ',')
        dtxt = r.choice(['%d' % d, '%02d' % d])
        mtxt = casing(r, MONS[mo - 1])
        tm = '%02d%s:%s%02d' % (h, osp(r), osp(r), mi) + (('%s:%02d' % (osp(r), s)) if r.random() < 0.85 else '')
        oh = r.choice([r.randrange(24)] * 5 + [0, 0, 23, 24, 99, 14]); om = r.choice([r.randrange(60)] * 3 + [0, 0, 0, 30, 59])
        zone = r.choice(['+%02d%02d' % (oh, om), '-%02d%02d' % (oh, om), '+0000', '-0000', 'GMT', 'UT', 'Z', 'EST', 'EDT', 'CST', 'CDT', 'MST', 'MDT', 'PST', 'PDT', 'gmt', 'a', 'N', 'y', 'K', 'edt', 'Pst'])
        cm = r.choice([''] * 6 + [' (UTC)', '(x)', ' (a (nested) one)', ' (esc \\) aped)', ' (a)(b)', ' (a) (b)', ' ()', ' (é€)', ' (\\\\)', ' ((()))', '\t(tab)', ' ', ' (a) '])
        def w(must=True):
            k = r.random()
            if k < 0.8: return ' '
            if k < 0.9: return r.choice(['  ', '\t', ' \t ', '\r\n '])
            if k < 0.97: return r.choice([' ', ' ', '　'])
            return '' if not must else ' '
        lead = r.choice([''] * 8 + [' ', '\t'])
        txt = lead + dow + (w(False) if dow else '') + dtxt + w() + mtxt + w() + ytxt + w() + tm + w() + zone + cm
        if r.random() < 0.08: txt = mutate(r, txt)
        print(call('date_from_rfc2822', S(txt)))

def unS(tok):
    if tok == 'S-': return ''
    return bytes.fromhex(tok[1:]).decode('utf8')

def gen_parse(r, n, phase1_lines, phase1_out):
    """phase-1: date_to_string calls and the real crate's answers; build string_to_* calls from produced texts"""
    pool = []
    for l, o in zip(phase1_lines, phase1_out):
        p = l.split(' ')
        if len(p) >= 6 and o.startswith('ok S') and p[4].startswith('S'):
            try: pool.append((unS(p[4]), unS(o[3:])))
            except Exception: pass
    extra_fmts = ["%Y-%m-%d", "%H:%M:%S", "%Y-%m-%d %H:%M:%S"]
    for _ in range(n):
        fmt, txt = r.choice(pool)
        name = r.choice(['string_to_date', 'string_to_time', 'string_to_datetime', 'string_to_datetime'])
        k = r.random()
        if k < 0.25: txt = mutate(r, txt)
        elif k < 0.30: txt = mutate(r, mutate(r, txt))
        elif k < 0.33: fmt = mutate(r, fmt)
        elif k < 0.36:
            fmt2, txt2 = r.choice(pool); fmt = fmt + ' ' + fmt2; txt = txt + r.choice([' ', '  ', '']) + txt2
        elif k < 0.38:
            fmt2, txt2 = r.choice(pool); txt = txt2
        k = r.random()
        if k < 0.9: print(call(name, S(txt), S(fmt)))
        elif k < 0.94: print(call(name, S(txt)))
        elif k < 0.96: print(call(name, S(txt), N(1.0)))
        elif k < 0.98: print(call(name, S(txt), S(fmt), S("x")))
        elif k < 0.99: print(call(name, N(2.0), S(fmt)))
        else: print(call(name))

def rfc3339_texts(r, n):
    import io, contextlib
    buf = io.StringIO()
    with contextlib.redirect_stdout(buf):
        gen_rfc3339(r, n)
    out = []
    for l in buf.getvalue().split('\n'):
        p = l.split(' ')
        if len(p) >= 5 and p[4].startswith('S'):
            out.append(unS(p[4]))
    return out

def gen_tz(r, n, phase1_lines, phase1_out):
    pool = []
    for l, o in zip(phase1_lines, phase1_out):
        p = l.split(' ')
        if len(p) >= 6 and o.startswith('ok S') and p[4].startswith('S'):
            try: pool.append((unS(p[4]), unS(o[3:])))
            except Exception: pass
    texts = rfc3339_texts(r, n)
    for i in range(n):
        name = r.choice(['string_to_date', 'string_to_time', 'string_to_datetime', 'string_to_datetime'])
        if i % 2 == 0:
            txt = texts[i % len(texts)]
            k = r.random()
            if k < 0.3:
                # relaxed variants
                txt = txt.replace('-', r.choice(['-', ' -', '- ', ' - ']), 1) if r.random() < 0.5 else txt.replace(':', r.choice([' :', ': ', ':']), 1)
            elif k < 0.4: txt = txt.replace('Z', r.choice(['UTC', 'utc', ' UTC', 'Utc', 'UT', 'GMT'])).replace('z', 'uTc')
            elif k < 0.5: txt = r.choice(['+', '-', '']) + r.choice(['1', '12', '123', '12345', '012345']) + txt[4:]
            elif k < 0.55: txt = txt.replace('-0', '-', 1)
            fmt = r.choice(['%+', '%+', '%+', ' %+', '%+ ', '%+%+', 'x%+', '%+x', '%Y %+', '%+ %Y', '%+ %H', '%s %+', '%+ %z'])
            if fmt == '%Y %+': txt = txt[:4] + ' ' + txt
            if fmt == '%+ %Y': txt = txt + ' ' + txt[:4]
            if fmt == '%+ %z': txt = txt + ' ' + r.choice(['+00:00', '+0000', 'Z', '+01:00', txt[-6:]])
            print(call(name, S(txt), S(fmt)))
        else:
            fmt, txt = r.choice(pool)
            oh = r.choice([r.randrange(24)] * 5 + [0, 0, 23, 24, 99, 14]); om = r.choice([r.randrange(60)] * 3 + [0, 0, 30, 59, 60, 99])
            sgn = r.choice(['+', '-', '+', '-', '−'])
            off = r.choice(['%s%02d:%02d' % (sgn, oh, om), '%s%02d%02d' % (sgn, oh, om), '%s%02d' % (sgn, oh), '%s%02d: %02d' % (sgn, oh, om), '%s%02d ::%02d' % (sgn, oh, om), 'Z', 'z', 'UTC', 'CET', 'Europe/Berlin', '+00:00', '', '%s%d:%02d' % (sgn, oh % 10, om),
                            '%s%02d:%d' % (sgn, oh, om % 10), '%s%02d:%02d:30' % (sgn, oh, om), '%s %02d:%02d' % (sgn, oh, om), 'é', '+é', '+0é', '+00é', '+00:é', '+00:0é'])
            spec = r.choice(['%z', '%:z', '%::z', '%:::z', '%#z', '%Z', '%z', '%:z', '%#z'])
            sep = r.choice([' ', '', ' ', '  ', 'T'])
            print(call(name, S(txt + sep + off), S(fmt + (sep if sep != '  ' else ' ') + spec)))

HAND_PARSE = [
    ("2024-W09-4", "%G-W%V-%u"), ("2020-W53-5", "%G-W%V-%u"), ("2021-W53-5", "%G-W%V-%u"), ("2024-060", "%Y-%j"), ("2023-366", "%Y-%j"), ("2024-366", "%Y-%j"), ("2024-000", "%Y-%j"),
    ("2024 08 0", "%Y %U %w"), ("2024 00 1", "%Y %U %w"), ("2024 00 0", "%Y %U %w"), ("2024 53 1", "%Y %W %u"), ("2024 52 2", "%Y %W %u"), ("2024 00 1", "%Y %W %u"),
    ("12:00:00 AM", "%I:%M:%S %p"), ("12:00:00 pm", "%I:%M:%S %p"), ("00:00:00 pm", "%I:%M:%S %p"), ("13:00:00 pm", "%H:%M:%S %p"), ("13:00:00 am", "%H:%M:%S %p"), ("11 pm", "%I %P"), ("pm", "%p"),
    ("1700000000", "%s"), ("1700000000 2023", "%s %Y"), ("1700000000 2024", "%s %Y"), ("0", "%s"), ("-1", "%s"), ("8210266876799", "%s"), ("8210266876800", "%s"), ("99999999999999999999", "%s"), ("9223372036854775807", "%s"), ("9223372036854775808", "%s"),
    ("1483228800 60", "%s %S"), ("1483228799 60", "%s %S"), ("1483228801 60", "%s %S"), ("0 60", "%s %S"), ("1483228800 60 2017", "%s %S %Y"), ("1483228800 60 2016", "%s %S %Y"), ("1483228799.5", "%s%.f"), ("1483228799 5", "%s %f"),
    ("2016-12-31 23:59:60", "%Y-%m-%d %H:%M:%S"), ("23:59:60", "%H:%M:%S"), ("23:59:60.5", "%H:%M:%S%.f"), ("23:59:59.9999999999", "%H:%M:%S%.f"), ("23:59:59.9994", "%H:%M:%S%.f"), ("23:59:59.9995", "%H:%M:%S%.f"), ("12:00.5", "%H:%M%.f"), ("12:00 5", "%H:%M %f"),
    ("20 24-01-01", "%C %y-%m-%d"), ("20 2024-01-01", "%C %Y-%m-%d"), ("21 2024-01-01", "%C %Y-%m-%d"), ("24 2024-01-01", "%y %Y-%m-%d"), ("69-01-01", "%y-%m-%d"), ("70-01-01", "%y-%m-%d"), ("20-01-01", "%C-%m-%d"), ("-0001-01-01", "%Y-%m-%d"), ("-1 99 01 01", "%Y %y %m %d"),
    ("+12345-01-01", "%Y-%m-%d"), ("12345-01-01", "%Y-%m-%d"), ("+262142-12-31", "%Y-%m-%d"), ("+262143-01-01", "%Y-%m-%d"), ("-262143-01-01", "%Y-%m-%d"), ("-262144-12-31", "%Y-%m-%d"), ("+2147483647-01-01", "%Y-%m-%d"), ("+2147483648-01-01", "%Y-%m-%d"), ("-2147483648-01-01", "%Y-%m-%d"), ("-2147483649-01-01", "%Y-%m-%d"),
    ("2147483647-W01-1", "%G-W%V-%u"), ("+2147483647-W01-1", "%G-W%V-%u"), ("+2147483647-W52-7", "%G-W%V-%u"), ("+2147483647-W53-7", "%G-W%V-%u"), ("-2147483648-W01-1", "%G-W%V-%u"), ("-2147483648-W01-7", "%G-W%V-%u"), ("-2147483648-W02-1", "%G-W%V-%u"), ("-2147483648-W53-1", "%G-W%V-%u"), ("-2147483647-W01-1", "%G-W%V-%u"), ("+2147483646-W53-7", "%G-W%V-%u"),
    ("+262143-W01-1", "%G-W%V-%u"), ("+262143-W01-3", "%G-W%V-%u"), ("-262143-W01-1", "%G-W%V-%u"), ("-262144-W52-7", "%G-W%V-%u"), ("-262144-W52-1", "%G-W%V-%u"), ("-262144-W53-1", "%G-W%V-%u"),
    ("Jan", "%b"), ("January 5 2024", "%B %d %Y"), ("Janu 5 2024", "%B %d %Y"), ("JANUARY 5 2024", "%B %d %Y"), ("may 5 2024", "%B %d %Y"), ("Mayé", "%B"), ("Thursday 2024-02-29", "%A %Y-%m-%d"), ("Thurs 2024-02-29", "%A %Y-%m-%d"), ("Fri 2024-02-29", "%a %Y-%m-%d"), ("thu 2024-02-29", "%a %F"),
    ("2024-02-29 +05:00", "%F %z"), ("2024-02-29 +0500", "%F %:z"), ("2024-02-29 +05", "%F %#z"), ("2024-02-29 Z", "%F %#z"), ("2024-02-29 Z", "%F %z"), ("2024-02-29 CET", "%F %Z"), ("2024-02-29 ", "%F %Z"), ("2024-02-29", "%F%Z"), ("2024-02-29 +05: 30", "%F %z"), ("2024-02-29 −05:30", "%F %z"), ("2024-02-29 +99:59", "%F %z"), ("2024-02-29 +05:60", "%F %z"),
    ("2024-02-29T12:34:56Z", "%+"), ("2024-02-29T12:34:56.789+05:30", "%+"), ("2024-02-29 12:34:56 UTC", "%+"), ("2024- 02- 29T12: 34: 56 utc", "%+"), ("+12024-02-29T12:34:56Z", "%+"), ("2024-02-29T12:34:60Z", "%+"), ("2024-02-29T12:34:56", "%+"), ("2024-2-9T1:3:5Z", "%+"), ("2024-02-29T12:34:56Zx", "%+"), ("2024-02-29T12:34:56+0530", "%+"),
    ("   2024-02-29", "%Y-%m-%d"), ("2024-02-29   ", "%Y-%m-%d"), ("2024-02-29   ", "%Y-%m-%d "), ("2024 -02-29", "%Y-%m-%d"), ("2024- 02-29", "%Y-%m-%d"), ("2024-02-29", "%Y - %m - %d"), ("2024-02-29", "%Y -%m-%d"), ("2024 -02-29", "%Y -%m-%d"),
    ("20240229", "%Y%m%d"), ("240229", "%y%m%d"), ("2024229", "%Y%m%d"), ("123456", "%H%M%S"), ("123456789", "%H%M%S%3f"), ("12345678", "%H%M%S%3f"), ("123456789012", "%H%M%S%6f"), ("123456789012345", "%H%M%S%9f"), ("12:34:56.789", "%T%.3f"), ("12:34:56.78", "%T%.3f"), ("12:34:56.7891", "%T%.3f"), ("12:34:56", "%T%.3f"),
    ("1 2024", "%q %Y"), ("1 2024-02-29", "%q %F"), ("2 2024-02-29", "%q %F"), ("5 2024-02-29", "%q %F"), ("0 2024-02-29", "%q %F"),
    ("2024-02-29 2024-02-29", "%F %F"), ("2024-02-29 2024-03-01", "%F %F"), ("12 12", "%H %I"), ("13 01", "%H %I"), ("13 01 pm", "%H %I %p"), ("00 12 am", "%H %I %p"),
    ("é", "%Y"), ("é", "é"), ("é", "e"), ("e", "é"), ("€", "%b"), ("éé", "%b"), ("日本", "日本"), ("日", "日本"), ("x", ""), ("", ""), ("", "%Y"), ("", " "), (" ", ""), ("%", "%%"), ("%%", "%%"),
    ("2024-02-29", "%Y-%m-%d%"), ("2024-02-29", "%Y-%m-%d%Q"), ("2024-02-2", "%Y-%m-%d%Q"), ("2024-02-29", "%Q%Y-%m-%d"), ("2024-02-29", "%-Y-%_m-%0d"), ("2024-02-29", "%-F"), ("29", "%-e"), ("29", "%_e"),
    ("Thu Feb 29 12:34:56 2024", "%c"), ("Fri Feb 29 12:34:56 2024", "%c"), ("02/29/24", "%x"), ("02/29/24", "%D"), ("29-Feb-2024", "%v"), ("12:34:56 PM", "%r"), ("12:34", "%R"), ("2024-02-29\t12:34:56", "%F%t%T"), ("2024-02-29\n12:34:56", "%F%n%T"), ("2024-02-2912:34:56", "%F%n%T"),
    ("24 09 4", "%g %V %u"), ("70 01 4", "%g %V %u"), ("69 01 4", "%g %V %u"), ("2024 24 09 4", "%G %g %V %u"), ("2024 25 09 4", "%G %g %V %u"),
    ("2024-02-29 060", "%F %j"), ("2024-02-29 061", "%F %j"), ("2024-02-29 08", "%F %U"), ("2024-02-29 09", "%F %U"), ("2024-02-29 09", "%F %V"), ("2024-02-29 4", "%F %u"), ("2024-02-29 5", "%F %u"), ("2024-02-29 4", "%F %w"), ("2024-02-29 7", "%F %w"), ("2024-02-29 0", "%F %u"), ("2024-02-29 8", "%F %u"),
]

def gen_hand(r):
    for txt, fmt in HAND_PARSE:
        for name in ['string_to_date', 'string_to_time', 'string_to_datetime']:
            print(call(name, S(txt), S(fmt)))

if __name__ == '__main__':
    kind = sys.argv[1]; n = int(sys.argv[2]); seed = int(sys.argv[3])
    r = random.Random(seed)
    if kind == 'fmt': gen_fmt(r, n)
    elif kind == 'rfc3339': gen_rfc3339(r, n)
    elif kind == 'rfc2822': gen_rfc2822(r, n // 2); gen_rfc2822_valid(r, n - n // 2)
    elif kind == 'hand': gen_hand(r)
    elif kind == 'tz':
        l1 = [l.rstrip('\n') for l in open(sys.argv[4])]
        o1 = [l.rstrip('\n') for l in open(sys.argv[5])]
        gen_tz(r, n, l1, o1)
    elif kind == 'parse':
        l1 = [l.rstrip('\n') for l in open(sys.argv[4])]
        o1 = [l.rstrip('\n') for l in open(sys.argv[5])]
        gen_parse(r, n, l1, o1)
