#!/usr/bin/env python3
"""Regenerates MANIFEST.json from tools/manifest_data.py (kept as code so that it stays consistent)."""
import json, os, sys
sys.path.insert(0, os.path.dirname(os.path.abspath(__file__)))
from manifest_data import CHECKS, NOT_APPLICABLE, NOTES
V = '/verif'
m = dict(
  version=1,
  setup_cmd='cd /verif && sh tools/setup.sh',
  hooks=dict(guard='slac_verif', enable='none needed: every observation goes through public items of the crate; no commit uses the guard',
             baseline_off_cmd='cd /repo && cargo test --workspace --no-fail-fast --offline', source_commits=[], add_only=True),
  engines=[dict(name='lean-proof', path='/verif/lean', serves_properties=[c['property_id'] for c in CHECKS],
                kind_free_text='Lean 4 model (SlacModel) + theorems (SlacProps/SlacProofs), kernel-checked; compiled driver for the correspondence check'),
           dict(name='harness', path='/verif/harness', serves_properties=[c['property_id'] for c in CHECKS],
                kind_free_text='Rust crate calling the real slac crate in-process; generators, executors, line protocol')],
  checks=[dict(property_id=c['property_id'],
               quick_cmd=f'python3 tools/check.py {c["property_id"]} --tier quick',
               thorough_cmd=f'python3 tools/check.py {c["property_id"]} --tier thorough',
               evidence_file=f'/verif/evidence/{c["property_id"]}.json',
               replay_cmd_template=f'python3 tools/check.py {c["property_id"]} --replay {{path}}',
               engine='lean-proof',
               level_claimed=dict(category='proof', text=c['text'], design_ref=c['design_ref']),
               level_note=c['note'], technique=c['technique']) for c in CHECKS],
  notes=NOTES,
  not_applicable=NOT_APPLICABLE,
)
json.dump(m, open(os.path.join(V, 'MANIFEST.json'), 'w'), indent=1)
print('MANIFEST.json:', len(CHECKS), 'checks,', len(NOT_APPLICABLE), 'not_applicable')
