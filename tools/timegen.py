#!/usr/bin/env python3
"""
Generator of date/time builtin calls (protocol `call` lines) for the check streams; wraps tools/timegen_core.py.
  timegen.py <n> <seed> fmt|rfc3339|rfc2822|hand      single phase
  timegen.py <n> <seed> parse|tz                       two phases: format n values with the real crate (TZ=UTC), then feed the crate's
                                                       own texts (and one-character mutations) back through string_to_* with the same format
Every random choice derives from the seed.
"""
import sys, os, subprocess, tempfile
HERE = os.path.dirname(os.path.abspath(__file__))
BIN = os.path.join(os.path.dirname(HERE), 'harness', 'target', 'release', 'slacharness')
def core(*a):
    return subprocess.run([sys.executable, os.path.join(HERE, 'timegen_core.py')] + [str(x) for x in a], stdout=subprocess.PIPE, check=True).stdout
n, seed, mode = int(sys.argv[1]), int(sys.argv[2]), sys.argv[3]
if mode in ('parse', 'tz'):
    with tempfile.TemporaryDirectory(dir=os.path.join(os.path.dirname(HERE), 'work')) as d:
        f1, o1 = os.path.join(d, 'fmt.txt'), os.path.join(d, 'fmt.out')
        open(f1, 'wb').write(core('fmt', n, seed))
        with open(f1, 'rb') as fi, open(o1, 'wb') as fo:
            subprocess.run([BIN, 'run'], stdin=fi, stdout=fo, env=dict(os.environ, TZ='UTC'), check=True)
        sys.stdout.buffer.write(core(mode, n, seed, f1, o1))
else:
    sys.stdout.buffer.write(core(mode, n, seed))
