#!/usr/bin/env python3
"""
rs2lean_scanner.py — translation of `impl Scanner` (src/scanner.rs) into Lean, on every check run, from the CURRENT source text.
Output: SlacModel/Generated/SrcScanner.lean.  SlacProps/C02Scanner.lean proves the hand-written scanner model (SlacModel/Scanner.lean), about
which the C02 / C07 scanner theorems are stated, equal to the generated functions.

How the Rust is read (trusted; everything else is mechanical):
  * `Scanner { source, start, current, end }`: `source` and `end` are never assigned after construction (checked), `end` is constructed as
    `source.chars().count()`; the text is the character list `src` (`source.chars().nth(i)` is `src[i]?`, `.chars().take(a).skip(b).collect()` is
    `(src.take a).drop b`), `self.end` is `src.length`; `start` and `current` are the state of the monad `SM` of SlacModel/SrcScannerPrelude.lean;
  * every method is a Lean definition of the same name (no method is recursive); statements run in order, `e?` and a method call in value position
    are binds where Rust evaluates them; `Ok(x)` = `pure x`, `Err(e)` / `return Err(e)` = `throwE e`;
  * `while c { … }`, `while let p = e { … }`, `loop { … }` become a recursive function over the locals the body assigns; every iteration spends one unit
    of `fuel` (outcome `outOfFuel` when it runs out); `break` leaves the loop, a control statement containing `break` or assigning a local gets the rest
    of the block copied into each of its branches;
  * `usize`: `Nat`, `a - b` is `usub a b` (panic outcome below zero); `i32` (the comment depth): `Int` (its overflow after 2^31 nested braces is not modelled);
  * `c.is_alphabetic()`, `c.is_numeric()`, `c.is_alphanumeric()`, `s.to_lowercase()` are the fields of the model's `CharClass` parameter `cc` (instantiated
    with std's tables dumped into SlacModel/UnicodeTables.lean); `text.parse::<f64>()` is `NumOps.parse` (std's float grammar, nearest double: the `num`
    stream ties it); `content.replace("''", "'")` is `Scanner.replaceQQ` (std: non-overlapping occurrences, left to right);
  * a `match` / `while let` whose patterns bind nothing (character and string literals, `Some('c')`, `None`, `_`, tuples and alternatives of these) is an
    if / else-if chain of `==` tests in arm order; `x == Some('c')` is the same test.
Anything else raises `Unrecognised`: the file is not written and SlacProps/C02Scanner is left out of that run.
"""
import os, sys, re
sys.path.insert(0, os.path.dirname(os.path.abspath(__file__)))
from rsparse import Unrecognised, find_fn, strip_tests
from rs2lean import lc

LEAN_KEYWORDS = {'end', 'from', 'at', 'then', 'else', 'do', 'fun', 'match', 'with', 'if', 'let', 'have', 'show', 'by', 'in', 'open', 'where', 'char',
                 'namespace', 'section', 'variable', 'def', 'theorem', 'instance', 'structure', 'class', 'for', 'return', 'mut', 'try', 'catch', 'next'}
TYPES = {'Token': 'Token N', 'char': 'Char', 'String': 'Str', '&str': 'Str', 'usize': 'Nat', 'bool': 'Bool', '()': 'Unit', 'i32': 'Int', 'f64': 'N',
         'Option <char>': 'Option Char', 'Vec <Token>': 'List (Token N)', 'Result <Token>': 'Token N', 'Result <f64>': 'N', 'Result <Vec <Token>>': 'List (Token N)'}
STATE = ('start', 'current')
FIX = '(fuel : Nat) (cc : Scanner.CharClass) (src : Str)'
FIXARGS = 'fuel cc src'

def ident(n): return n + '_' if n in LEAN_KEYWORDS else n
def lean_type(t):
    t = t.strip()
    if t not in TYPES: raise Unrecognised(f'type {t}')
    return TYPES[t]
def is_result(t): return t.strip().startswith('Result')
def chr_lit(text):
    # Rust char literal text (with quotes) -> Lean char literal
    if re.fullmatch(r"'([^'\\]|\\['nrt\\0\"])'", text): return text.replace("'\\0'", "'\\x00'")
    raise Unrecognised(f'character literal {text}')
def str_chars(text):
    body = text[1:-1]
    if not re.fullmatch(r"[A-Za-z0-9_ ']*", body): raise Unrecognised(f'string literal {text}')
    return '[' + ', '.join("'\\''" if ch == "'" else f"'{ch}'" for ch in body) + ']'

def contains(e, pred):
    if isinstance(e, tuple):
        if pred(e): return True
        return any(contains(x, pred) for x in e)
    if isinstance(e, list): return any(contains(x, pred) for x in e)
    return False
def has_break(e): return contains(e, lambda x: x == ('path', ['break']))
def paths_in(e, acc):
    if isinstance(e, tuple):
        if len(e) == 2 and e[0] == 'path' and len(e[1]) == 1: acc.add(e[1][0])
        for x in e: paths_in(x, acc)
    elif isinstance(e, list):
        for x in e: paths_in(x, acc)
    return acc

class Cx:
    def __init__(self, owner, locals_, ret_result, let_types):
        self.owner = owner; self.locals = list(locals_); self.ret_result = ret_result; self.let_types = let_types; self.loop = None
    def child(self, **kw):
        c = Cx(self.owner, self.locals, self.ret_result, self.let_types); c.loop = self.loop
        for k, v in kw.items(): setattr(c, k, v)
        return c
    def add_local(self, name, ty): self.locals = [(n, t) for n, t in self.locals if n != name] + [(name, ty)]
    def type_of(self, name):
        for n, t in self.locals:
            if n == name: return t
        return None

class Tx:
    def __init__(self, src):
        self.src = strip_tests(src); self.cache = {}; self.defs = []; self.done = {}; self.tmp = 0; self.loops = {}; self.static = set()
        if re.search(r'self\s*\.\s*(source|end)\s*(=[^=]|\+=|-=)', self.src): raise Unrecognised('self.source / self.end is assigned')
    def fn(self, name):
        if name not in self.cache: self.cache[name] = find_fn(self.src, name, after="impl")
        return self.cache[name]
    def is_static(self, name): return not any(p[0] == 'self' for p in self.fn(name)['params'])
    def fresh(self, base='t'):
        self.tmp += 1; return f'{base}{self.tmp}'
    def par(self, t):
        if re.match(r"^[\w.«»\[\]?']+$", t): return t
        if t.startswith('(') and t.endswith(')'):
            d = 0
            for i, ch in enumerate(t):
                d += ch == '('; d -= ch == ')'
                if d == 0 and i != len(t) - 1: break
            else: return t
        return f'({t})'

    # ---- patterns: a list of alternatives [(text, binds)] ------------------------------------------------------------------------------------
    def pats(self, p, cx, ty=None):
        if isinstance(p, list):
            out = []
            for q in p: out += self.pats(q, cx, ty)
            return out
        k = p[0]
        if k == 'pwild': return [('_', [])]
        if k == 'pref': return self.pats(p[1], cx, ty)
        if k == 'pbind': return [(ident(p[1]), [(p[1], ty)])]
        if k == 'plit':
            if p[1] == 'chr': return [(chr_lit(p[2]), [])]
            if p[1] == 'str': return [(str_chars(p[2]), [])]
            if p[1] == 'bool': return [(p[2], [])]
            raise Unrecognised(f'literal pattern {p[2]}')
        if k == 'ppath':
            if p[1] == ['None']: return [('none', [])]
            raise Unrecognised(f'pattern {p[1]}')
        if k == 'ptuplestruct' and p[1] == ['Some'] and len(p[2]) == 1:
            inner_ty = ty[7:].strip('()') if ty and ty.startswith('Option') else None
            return [(f'some {self.par(t)}', b) for t, b in self.pats(p[2][0], cx, inner_ty)]
        if k == 'ptuple':
            combos = [('', [])]
            for q in p[1]:
                combos = [((a + ', ' if a else '') + t, ab + b) for a, ab in combos for t, b in self.pats(q, cx, None)]
            return [(f'({t})', b) for t, b in combos]
        raise Unrecognised(f'pattern {k}')

    def lit_cond(self, p, t):
        """a pattern without binders as a Boolean test of the scrutinee text `t` (None when the pattern binds something); '' = always true"""
        if isinstance(p, list):
            cs = [self.lit_cond(q, t) for q in p]
            if any(c is None for c in cs): return None
            return '' if '' in cs else '(' + ' || '.join(cs) + ')'
        k = p[0]
        if k == 'pref': return self.lit_cond(p[1], t)
        if k == 'pwild': return ''
        if k == 'plit' and p[1] == 'chr': return f'({t} == {chr_lit(p[2])})'
        if k == 'plit' and p[1] == 'str': return f'({t} == {str_chars(p[2])})'
        if k == 'ppath' and p[1] == ['None']: return f'({t} == none)'
        if k == 'ptuplestruct' and p[1] == ['Some'] and len(p[2]) == 1:
            inner = p[2][0]; alts = inner if isinstance(inner, list) else [inner]
            if all(a[0] == 'plit' and a[1] == 'chr' for a in alts):
                cs = [f'({t} == some {chr_lit(a[2])})' for a in alts]; return cs[0] if len(cs) == 1 else '(' + ' || '.join(cs) + ')'
            return None
        return None
    def arm_cond(self, pats, scrut_texts):
        """condition of a match arm over one scrutinee or a tuple of scrutinees; None if some alternative binds a name"""
        conds = []
        for p in pats:
            if len(scrut_texts) > 1:
                if p[0] == 'pwild': return ''
                if p[0] != 'ptuple' or len(p[1]) != len(scrut_texts): return None
                cs = [self.lit_cond(q, t) for q, t in zip(p[1], scrut_texts)]
                if any(c is None for c in cs): return None
                cs = [c for c in cs if c]
                conds.append('' if not cs else (cs[0] if len(cs) == 1 else '(' + ' && '.join(cs) + ')'))
            else:
                c = self.lit_cond(p, scrut_texts[0])
                if c is None: return None
                conds.append(c)
        if '' in conds: return ''
        return conds[0] if len(conds) == 1 else '(' + ' || '.join(conds) + ')'
    def scrutinee(self, e, cx):
        """(binds, [texts], type): a tuple scrutinee is kept as its components"""
        if e[0] == 'tuple' and e[1]:
            bs, ts = self.values(e[1], cx); return bs, ts, 'tuple'
        b, t, ty = self.value(e, cx); return b, [t], ty
    def if_chain(self, arms, scrut_texts, cx, body_fn):
        """match with binder-free patterns -> if / else if chain, or None"""
        conds = []
        for pats, guard, body in arms:
            if guard is not None: return None
            c = self.arm_cond(pats, scrut_texts)
            if c is None: return None
            conds.append(c)
        if '' not in conds: return None            # no catch-all arm: keep the match (exhaustiveness is Rust's business)
        out = []; indent = 0
        for (pats, guard, body), c in zip(arms, conds):
            lines = body_fn(body)
            if c == '':
                out += [' ' * indent + l for l in (self.emb(lines) if indent else lines)]
                return out
            out += [' ' * indent + l for l in self.nest(f'if {c} then', lines)] + [' ' * indent + 'else']
            indent += 2
        return None

    # ---- values: (binds, text, type) -----------------------------------------------------------------------------------------------------------
    def value(self, e, cx):
        k = e[0]
        if k == 'unop' and e[1] in ('&', '*'): return self.value(e[2], cx)
        if k == 'unop' and e[1] == '!':
            b, t, ty = self.value(e[2], cx); return b, f'(!{self.par(t)})', 'Bool'
        if k == 'lit':
            if e[1] == 'chr': return [], chr_lit(e[2]), 'Char'
            if e[1] == 'bool': return [], e[2], 'Bool'
            if e[1] == 'num' and re.fullmatch(r'\d+', e[2]): return [], e[2], 'num'
            raise Unrecognised(f'literal {e[2]}')
        if k == 'tuple':
            if not e[1]: return [], '()', 'Unit'
            bs, ts = [], []
            for x in e[1]:
                b, t, _ = self.value(x, cx); bs += b; ts.append(t)
            return bs, '(' + ', '.join(ts) + ')', 'tuple'
        if k == 'macro' and e[1] == 'vec' and not e[2]: return [], '[]', 'list'
        if k == 'path':
            p = e[1]
            if len(p) == 1:
                if p[0] == 'None': return [], 'none', 'Option'
                ty = cx.type_of(p[0])
                if ty is None: raise Unrecognised(f'unknown name {p[0]}')
                return [], ident(p[0]), ty
            if p[0] == 'Token' and len(p) == 2: return [], f'(.{lc(p[1])} : Token N)', 'Token N'
            if p[0] == 'Error' and len(p) == 2: return [], f'(.{lc(p[1])} : CErr N)', 'CErr'
            raise Unrecognised(f'path {p}')
        if k == 'field' and e[1] == ('path', ['self']):
            if e[2] in STATE:
                v = self.fresh(e[2][0]); return [f'let {v} ← get_{e[2]}'], v, 'Nat'
            if e[2] == 'end': return [], 'src.length', 'Nat'
            raise Unrecognised(f'self.{e[2]}')
        if k == 'try' or (k == 'mcall' and e[1] == ('path', ['self'])) or (k == 'call' and e[1][0] == 'path' and e[1][1][0] in ('Scanner', 'Self') and len(e[1][1]) == 2 and not self.is_static_pure(e[1][1][1])):
            inner = e[1] if k == 'try' else e
            lines, ty = self.action(inner, cx.child(ret_result=True) if k == 'try' else cx)
            v = self.fresh(); return self.bind_lines(v, lines), v, ty
        if k == 'call':
            f, args = e[1], e[2]
            if f[0] == 'path':
                p = f[1]
                if p == ['Some'] and len(args) == 1:
                    b, t, ty = self.value(args[0], cx); return b, f'(some {self.par(t)})', f'Option ({ty})'
                if p == ['char', 'is_numeric'] and len(args) == 1:
                    b, t, _ = self.value(args[0], cx); return b, f'(cc.isNumeric {self.par(t)})', 'Bool'
                if len(p) == 2 and p[0] in ('Scanner', 'Self') and self.is_static_pure(p[1]):
                    self.method(p[1]); bs, ts = self.values(args, cx)
                    return bs, f'({p[1]} cc ' + ' '.join(self.par(t) for t in ts) + ')', lean_type(self.fn(p[1])['ret'])
                if p[0] == 'Token' and len(p) == 2:
                    bs, ts = self.values(args, cx); return bs, f'(.{lc(p[1])} {" ".join(self.par(t) for t in ts)} : Token N)', 'Token N'
                if p[0] == 'Value' and len(p) == 2 and p[1] in ('Boolean', 'Number', 'String') and len(args) == 1:
                    b, t, _ = self.value(args[0], cx); return b, f'(.{ {"Boolean": "bool", "Number": "num", "String": "str"}[p[1]] } {self.par(t)} : Value N)', 'Value N'
                if p[0] == 'Error' and len(p) == 2:
                    if p[1] == 'InvalidNumber': return [], '(.invalidNumber : CErr N)', 'CErr'          # the model's variant carries no text
                    bs, ts = self.values(args, cx); return bs, f'(.{lc(p[1])} {" ".join(self.par(t) for t in ts)} : CErr N)', 'CErr'
            raise Unrecognised(f'call {f}')
        if k == 'mcall':
            recv, name, args = e[1], e[2], e[4]
            if name in ('clone', 'as_ref', 'as_str', 'to_string', 'to_owned') and not args: return self.value(recv, cx)
            src_chars = ('mcall', ('field', ('path', ['self']), 'source'), 'chars', None, [])
            if recv == src_chars and name == 'nth' and len(args) == 1:
                b, t, _ = self.value(args[0], cx); return b, f'src[{t}]?', 'Option Char'
            if name == 'collect' and not args and recv[0] == 'mcall' and recv[2] == 'skip' and recv[1][0] == 'mcall' and recv[1][2] == 'take' and recv[1][1] == src_chars:
                tb, tt, _ = self.value(recv[1][4][0], cx); fb, ft, _ = self.value(recv[4][0], cx)
                return tb + fb, f'(List.drop {self.par(ft)} (List.take {self.par(tt)} src))', 'Str'
            if name == 'is_some_and' and len(args) == 1:
                b, t, _ = self.value(recv, cx); a = args[0]
                if a[0] == 'closure' and len(a[1]) == 1:
                    alts = self.pats(a[1][0], cx, 'Char')
                    if len(alts) != 1: raise Unrecognised('closure pattern')
                    cb, ct, _ = self.value(a[2], self.with_binds(cx, alts[0][1], 'Char'))
                    if cb: raise Unrecognised('effect inside a closure')
                    return b, f'(match {t} with | some {self.par(alts[0][0])} => {ct} | none => false)', 'Bool'
                if a[0] == 'path' and len(a[1]) == 2 and a[1][0] in ('Scanner', 'Self') and self.is_static_pure(a[1][1]):
                    self.method(a[1][1]); return b, f'(match {t} with | some x => {a[1][1]} cc x | none => false)', 'Bool'
                raise Unrecognised('argument of is_some_and')
            if name in ('is_numeric', 'is_alphabetic', 'is_alphanumeric') and not args:
                b, t, ty = self.value(recv, cx)
                fn = {'is_numeric': 'cc.isNumeric', 'is_alphabetic': 'cc.isAlphabetic', 'is_alphanumeric': 'Scanner.CharClass.isAlphanumeric cc'}[name]
                return b, f'({fn} {self.par(t)})', 'Bool'
            if name == 'to_lowercase' and not args:
                b, t, ty = self.value(recv, cx); return b, f'(cc.lowerStr {self.par(t)})', 'Str'
            if name == 'replace' and args == [('lit', 'str', '"\'\'"'), ('lit', 'str', '"\'"')]:
                b, t, ty = self.value(recv, cx); return b, f'(Scanner.replaceQQ {self.par(t)})', 'Str'
            if name == 'is_empty' and not args:
                b, t, ty = self.value(recv, cx); return b, f'(List.isEmpty {self.par(t)})', 'Bool'
            if name == 'count' and not args and recv == ('mcall', ('path', ['source']), 'chars', None, []): return [], 'src.length', 'Nat'
            raise Unrecognised(f'method {name}')
        if k == 'binop':
            op, l, r = e[1], e[2], e[3]
            if op in ('==', '!='):
                for a, o in ((r, l), (l, r)):
                    a0 = a
                    while a0[0] == 'unop' and a0[1] == '&': a0 = a0[2]
                    if a0[0] == 'call' and a0[1] == ('path', ['Some']) and len(a0[2]) == 1 and a0[2][0][0] == 'lit' and a0[2][0][1] == 'chr':
                        b, t, _ = self.value(o, cx); txt = f'({t} == some {chr_lit(a0[2][0][2])})'
                        return b, (txt if op == '==' else f'(!{txt})'), 'Bool'
                lb, lt, lty = self.value(l, cx); rb, rt, rty = self.value(r, cx)
                if rb: raise Unrecognised('effect on the right of ==')
                if 'Char' in (lty, rty) or 'Nat' in (lty, rty): return lb, (f'({lt} == {rt})' if op == '==' else f'({lt} != {rt})'), 'Bool'
                raise Unrecognised(f'== on {lty}, {rty}')
            if op in ('&&', '||'):
                lb, lt, _ = self.value(l, cx); rb, rt, _ = self.value(r, cx)
                if rb: raise Unrecognised('effect on the right of a short-circuit operator')
                return lb, f'({lt} {op} {rt})', 'Bool'
            lb, lt, lty = self.value(l, cx); rb, rt, rty = self.value(r, cx)
            ty = 'Int' if 'Int' in (lty, rty) else 'Nat'
            if op in ('<', '<=', '>', '>='):
                return lb + rb, f'(decide ({lt} {dict(zip(("<", "<=", ">", ">="), ("<", "≤", ">", "≥")))[op]} {rt}))', 'Bool'
            if op == '+': return lb + rb, f'({lt} + {rt})', ty
            if op == '-':
                if ty == 'Int': return lb + rb, f'({lt} - {rt})', 'Int'
                v = self.fresh('d'); return lb + rb + [f'let {v} ← usub {self.par(lt)} {self.par(rt)}'], v, 'Nat'
            raise Unrecognised(f'operator {op}')
        raise Unrecognised(f'expression {k}')
    def values(self, es, cx):
        bs, ts = [], []
        for x in es:
            b, t, _ = self.value(x, cx); bs += b; ts.append(t)
        return bs, ts
    def with_binds(self, cx, binds, default_ty):
        c = cx.child()
        for n, ty in binds: c.add_local(n, ty or default_ty)
        return c
    def is_static_pure(self, name):
        f = self.fn(name); return self.is_static(name) and not is_result(f['ret'])

    # ---- actions: (lines of a `do` block, result type) ----------------------------------------------------------------------------------------------
    def emb(self, lines):
        if len(lines) == 1: return [lines[0]]
        return ['(do'] + ['  ' + l for l in lines[:-1]] + ['  ' + lines[-1] + ')']
    def bind_lines(self, v, lines):
        if len(lines) == 1: return [f'let {v} ← {lines[0]}']
        em = self.emb(lines); return [f'let {v} ← {em[0]}'] + ['  ' + l for l in em[1:]]
    def nest(self, head, lines): return [head] + ['  ' + l for l in self.emb(lines)]

    def action(self, e, cx):
        k = e[0]
        if k == 'block':
            return self.seq(e[1] + ([('expr', e[2])] if False else []), e[2], cx), None
        if k == 'return': return self.action(e[1], cx) if e[1] is not None else (['pure ()'], 'Unit')
        if k == 'call' and e[1] == ('path', ['Ok']) and len(e[2]) == 1:
            b, t, ty = self.value(e[2][0], cx); return b + [f'pure {self.par(t)}'], ty
        if k == 'call' and e[1] == ('path', ['Err']) and len(e[2]) == 1:
            b, t, _ = self.value(e[2][0], cx); return b + [f'throwE {self.par(t)}'], None
        if k == 'mcall' and e[1] == ('path', ['self']):
            self.method(e[2]); bs, ts = self.values(e[4], cx)
            return bs + [' '.join([e[2], FIXARGS] + [self.par(t) for t in ts])], lean_type(self.fn(e[2])['ret'])
        if k == 'call' and e[1][0] == 'path' and len(e[1][1]) == 2 and e[1][1][0] in ('Scanner', 'Self') and not self.is_static_pure(e[1][1][1]):
            name = e[1][1][1]; self.method(name); bs, ts = self.values(e[2], cx)
            return bs + [' '.join([name, FIXARGS] + [self.par(t) for t in ts])], lean_type(self.fn(name)['ret'])
        if k == 'mcall' and e[2] == 'ok_or' and len(e[4]) == 1:
            b, t, ty = self.value(e[1], cx); eb, et, _ = self.value(e[4][0], cx)
            return b + eb + [f'okOr {self.par(t)} {self.par(et)}'], (ty[7:].strip('()') if ty and ty.startswith('Option') else None)
        if k == 'mcall' and e[2] == 'map_err' and e[1][0] == 'mcall' and e[1][2] == 'parse' and e[1][3] and 'f64' in e[1][3]:
            a = e[4][0] if len(e[4]) == 1 else None
            if not (a and a[0] == 'closure' and a[2][0] == 'call' and a[2][1] == ('path', ['Error', 'InvalidNumber'])): raise Unrecognised('map_err of parse::<f64>')
            b, t, _ = self.value(e[1][1], cx); return b + [f'okOr (NumOps.parse (N := N) {self.par(t)}) (.invalidNumber : CErr N)'], 'N'
        if k == 'match':
            sb, sts, sty = self.scrutinee(e[1], cx); rtys = []
            def body_fn(body):
                lines, bty = self.action(body, cx); rtys.append(bty); return lines
            chain = self.if_chain(e[2], sts, cx, body_fn)
            if chain is not None: return sb + chain, next((t for t in rtys if t), None)
            b, t, ty = self.value(e[1], cx); out = b + [f'match {t} with']; rty = None
            for pats, guard, body in e[2]:
                if guard is not None: raise Unrecognised('guard')
                alts = self.pats(pats, cx, ty)
                names = [n for n, _ in alts[0][1]]
                if any([n for n, _ in a[1]] != names for a in alts): raise Unrecognised('alternatives bind different names')
                lines, bty = self.action(body, self.with_binds(cx, alts[0][1], 'Char')); rty = rty or bty
                out += self.nest('| ' + ' | '.join(a[0] for a in alts) + ' =>', lines)
            return out, rty
        if k == 'if':
            b, t, _ = self.value(e[1], cx)
            if e[3] is None:
                if cx.ret_result: raise Unrecognised('`if` without `else` in result position')
                return b + self.nest(f'if {t} then', self.seq(self.stmts_of(e[2]), None, cx.child(ret_result=False))) + self.nest('else', ['pure ()']), 'Unit'
            l1, t1 = self.action(e[2], cx); l2, t2 = self.action(e[3], cx)
            return b + self.nest(f'if {t} then', l1) + self.nest('else', l2), t1 or t2
        if cx.ret_result: raise Unrecognised(f'result expression {k}')
        b, t, ty = self.value(e, cx); return b + [f'pure {self.par(t)}'], ty

    def stmts_of(self, blk): return blk[1] + ([('expr', blk[2])] if blk[2] is not None else [])

    def assigned(self, e, acc):
        if isinstance(e, tuple):
            if e and e[0] == 'assign' and e[1][0] == 'path' and len(e[1][1]) == 1: acc.add(e[1][1][0])
            if e and e[0] == 'mcall' and e[2] == 'push' and e[1][0] == 'path' and len(e[1][1]) == 1: acc.add(e[1][1][0])
            for x in e: self.assigned(x, acc)
        elif isinstance(e, list):
            for x in e: self.assigned(x, acc)
        return acc

    def needs_cps(self, e, cx):
        """a control statement whose branches leave the straight line: `break`, `return`, or an assignment to a local"""
        return has_break(e) or contains(e, lambda x: isinstance(x, tuple) and x and x[0] == 'return') or bool(self.assigned(e, set()) & {n for n, _ in cx.locals})

    def finish(self, tail, cx):
        """what follows the last statement: the block's value, or — at the end of a loop body — the next iteration"""
        if tail is not None:
            lines, _ = self.action(tail, cx); return lines
        if cx.loop is not None: return [cx.loop[0]]
        if cx.ret_result: raise Unrecognised('block without a result')
        return ['pure ()']

    def seq(self, stmts, tail, cx):
        cx = cx.child(); out = []
        if tail is not None and tail[0] in ('loop', 'while', 'whilelet'): stmts = stmts + [('expr', tail)]; tail = None     # a unit-valued loop written without `;`
        for i, st in enumerate(stmts):
            rest = stmts[i + 1:]
            if st[0] == 'let':
                _, p, e = st
                if p[0] != 'pbind': raise Unrecognised('destructuring let')
                name = p[1]
                if e[0] == 'try' or (e[0] == 'mcall' and e[1] == ('path', ['self'])) or (e[0] == 'call' and e[1][0] == 'path' and e[1][1][0] in ('Scanner', 'Self') and not self.is_static_pure(e[1][1][-1])):
                    inner = e[1] if e[0] == 'try' else e
                    lines, ty = self.action(inner, cx.child(ret_result=True) if e[0] == 'try' else cx)
                    out += self.bind_lines(ident(name), lines)
                else:
                    b, t, ty = self.value(e, cx); out += b + [f'let {ident(name)} := {t}']
                lt = cx.let_types.get(name)
                cx.add_local(name, lean_type(lt) if lt else ({'num': 'Nat', 'list': 'List (Token N)'}.get(ty, ty) or 'unknown')); continue
            e = st[1]
            if e == ('path', ['break']):
                if cx.loop is None: raise Unrecognised('break outside a loop')
                return out + [cx.loop[1]]
            if e[0] == 'return':
                if cx.loop is not None and not (e[1] and e[1][0] == 'call' and e[1][1] == ('path', ['Err'])): raise Unrecognised('return of a value inside a loop')
                lines, _ = self.action(e, cx.child(ret_result=True)); return out + lines
            if e[0] == 'assign':
                lhs, rhs = e[1], e[2]
                if lhs[0] == 'field' and lhs[1] == ('path', ['self']) and lhs[2] in STATE:
                    b, t, _ = self.value(rhs, cx); out += b + [f'set_{lhs[2]} {self.par(t)}']; continue
                if lhs[0] == 'path' and len(lhs[1]) == 1 and cx.type_of(lhs[1][0]):
                    b, t, _ = self.value(rhs, cx); out += b + [f'let {ident(lhs[1][0])} := {t}']; continue
                raise Unrecognised(f'assignment to {lhs}')
            if e[0] == 'mcall' and e[2] == 'push' and e[1][0] == 'path' and len(e[1][1]) == 1 and cx.type_of(e[1][1][0]) and len(e[4]) == 1:
                name = e[1][1][0]; b, t, _ = self.value(e[4][0], cx); out += b + [f'let {ident(name)} := {ident(name)} ++ [{t}]']; continue
            if e[0] in ('while', 'whilelet', 'loop'):
                out += self.loop(e, cx); continue
            if e[0] in ('if', 'iflet', 'match') and self.needs_cps(e, cx):
                # copy the rest of the block into every branch
                k = lambda blk, c2: self.seq(self.stmts_of(blk) + rest, tail, c2) if blk[0] == 'block' else self.seq([('expr', blk)] + rest, tail, c2)
                if e[0] == 'if':
                    b, t, _ = self.value(e[1], cx)
                    return out + b + self.nest(f'if {t} then', k(e[2], cx)) + self.nest('else', k(e[3], cx) if e[3] is not None else self.seq(rest, tail, cx))
                if e[0] == 'iflet':
                    b, t, ty = self.value(e[2], cx); alts = self.pats(e[1], cx, ty)
                    return out + b + [f'match {t} with'] + self.nest('| ' + ' | '.join(a[0] for a in alts) + ' =>', k(e[3], self.with_binds(cx, alts[0][1], 'Char'))) + \
                           self.nest('| _ =>', k(e[4], cx) if e[4] is not None else self.seq(rest, tail, cx))
                as_blk = lambda body: body if body[0] == 'block' else ('block', [] if body == ('tuple', []) else [('expr', body)], None)
                sb, sts, sty = self.scrutinee(e[1], cx)
                chain = self.if_chain(e[2], sts, cx, lambda body: k(as_blk(body), cx))
                if chain is not None: return out + sb + chain
                b, t, ty = self.value(e[1], cx); res = out + b + [f'match {t} with']
                for pats, guard, body in e[2]:
                    if guard is not None: raise Unrecognised('guard')
                    alts = self.pats(pats, cx, ty)
                    body_blk = body if body[0] == 'block' else ('block', [] if body == ('tuple', []) else [('expr', body)], None)
                    res += self.nest('| ' + ' | '.join(a[0] for a in alts) + ' =>', k(body_blk, self.with_binds(cx, alts[0][1], 'Char')))
                return res
            if e[0] == 'iflet':
                if e[4] is not None: raise Unrecognised('`if let … else` as a statement')
                b, t, ty = self.value(e[2], cx); alts = self.pats(e[1], cx, ty)
                out += b + [f'match {t} with'] + self.nest('| ' + ' | '.join(a[0] for a in alts) + ' =>', self.seq(self.stmts_of(e[3]), None, self.with_binds(cx, alts[0][1], 'Char').child(ret_result=False, loop=None))) + \
                       self.nest('| _ =>', ['pure ()']); continue
            if e[0] == 'if' and e[3] is None:
                b, t, _ = self.value(e[1], cx)
                out += b + self.nest(f'if {t} then', self.seq(self.stmts_of(e[2]), None, cx.child(ret_result=False, loop=None))) + self.nest('else', ['pure ()']); continue
            if e[0] == 'if':
                b, t, _ = self.value(e[1], cx)
                out += b + self.nest(f'if {t} then', self.seq(self.stmts_of(e[2]), None, cx.child(ret_result=False, loop=None))) + \
                       self.nest('else', self.seq(self.stmts_of(e[3]), None, cx.child(ret_result=False, loop=None))); continue
            if e[0] == 'try' or e[0] in ('mcall', 'call'):
                inner = e[1] if e[0] == 'try' else e
                lines, _ = self.action(inner, cx.child(ret_result=True) if e[0] == 'try' else cx.child(ret_result=False))
                out += self.emb(lines); continue
            if e == ('tuple', []): continue
            raise Unrecognised(f'statement {e[0]}')
        return out + self.finish(tail, cx)

    # ---- loops ---------------------------------------------------------------------------------------------------------------------------------------
    def loop(self, e, cx):
        body = e[-1]; stmts = self.stmts_of(body)
        local_names = [n for n, _ in cx.locals]
        muts = [n for n in local_names if n in self.assigned(body, set())]
        used = paths_in([x for x in e[1:]], set())
        caps = [n for n in local_names if n in used and n not in muts]
        for n in muts + caps:
            if cx.type_of(n) in (None, 'unknown'): raise Unrecognised(f'type of loop variable {n}')
        self.loops[cx.owner] = self.loops.get(cx.owner, 0) + 1
        name = f'{cx.owner}_loop{self.loops[cx.owner]}'
        tup = lambda: ident(muts[0]) if len(muts) == 1 else '(' + ', '.join(ident(n) for n in muts) + ')'
        ret_ty = 'Unit' if not muts else ' × '.join(cx.type_of(n) for n in muts)
        exit_ = 'pure ()' if not muts else 'pure ' + tup()
        again = ' '.join([name, FIXARGS, 'f'] + [ident(n) for n in caps + muts])
        inner = cx.child(ret_result=False, loop=(again, exit_), owner=name)
        if e[0] == 'while':
            b, t, _ = self.value(e[1], inner)
            lines = b + self.nest(f'if {t} then', self.seq(stmts, None, inner)) + self.nest('else', [exit_])
        elif e[0] == 'whilelet' and self.lit_cond(e[1], 'X') not in (None, ''):
            b, t, ty = self.value(e[2], inner)
            lines = b + self.nest(f'if {self.lit_cond(e[1], t)} then', self.seq(stmts, None, inner)) + self.nest('else', [exit_])
        elif e[0] == 'whilelet':
            b, t, ty = self.value(e[2], inner); alts = self.pats(e[1], inner, ty)
            lines = b + [f'match {t} with'] + self.nest('| ' + ' | '.join(a[0] for a in alts) + ' =>', self.seq(stmts, None, self.with_binds(inner, alts[0][1], 'Char'))) + self.nest('| _ =>', [exit_])
        else:
            lines = self.seq(stmts, None, inner)
        sig = ' → '.join(['Nat'] + [cx.type_of(n) for n in caps + muts] + [f'SM N ({ret_ty})'])
        zero = ', '.join(['0'] + ['_'] * len(caps + muts)); succ = ', '.join(['f+1'] + [ident(n) for n in caps + muts])
        self.defs.append(f'def {name} {FIX} : {sig}\n  | {zero} => outOfFuel\n  | {succ} => do\n' + '\n'.join('    ' + l for l in lines))
        call = ' '.join([name, FIXARGS, 'fuel'] + [ident(n) for n in caps + muts])
        return [call] if not muts else [f'let {tup()} ← {call}']

    # ---- methods ---------------------------------------------------------------------------------------------------------------------------------------
    def method(self, name):
        if name in self.done: return
        self.done[name] = None
        f = self.fn(name); params = [p for p in f['params'] if p[0] != 'self']
        cx = Cx(name, [(p, lean_type(t)) for p, t in params], is_result(f['ret']), f.get('let_types', {}))
        sigp = ' '.join(f'({ident(p)} : {lean_type(t)})' for p, t in params)
        if self.is_static_pure(name):
            b, t, _ = self.value(f['body'][2], cx) if not f['body'][1] and f['body'][2] is not None else (None, None, None)
            if b is None or b: raise Unrecognised(f'body of {name}')
            self.defs.append(f'/-- `Scanner::{name}` -/\ndef {name} (cc : Scanner.CharClass) {sigp} : {lean_type(f["ret"])} := {t}')
        else:
            lines = self.seq(f['body'][1], f['body'][2], cx)
            self.defs.append(f'/-- `Scanner::{name}` -/\ndef {name} {FIX} {sigp} : SM N ({lean_type(f["ret"])}) := do\n'.replace('  :', ' :') + '\n'.join('  ' + l for l in lines))
        self.done[name] = True

def rename(e, old, new):
    if e == ('path', [old]): return ('path', [new])
    if isinstance(e, tuple): return tuple(rename(x, old, new) for x in e)
    if isinstance(e, list): return [rename(x, old, new) for x in e]
    return e

def gen_scanner(srcdir):
    text = open(os.path.join(srcdir, 'scanner.rs')).read()
    tx = Tx(text)
    tk = tx.fn('tokenize'); st = tk['body'][1]
    if not (st and st[0][0] == 'let' and st[0][1][0] == 'pbind' and st[0][2][0] == 'struct' and st[0][2][1] == ['Scanner']): raise Unrecognised('shape of tokenize')
    var = st[0][1][1]; fields = dict(st[0][2][2])
    want = {'source': ('path', ['source']), 'start': ('lit', 'num', '0'), 'current': ('lit', 'num', '0'),
            'end': ('mcall', ('mcall', ('path', ['source']), 'chars', None, []), 'count', None, [])}
    if fields != want: raise Unrecognised('initial Scanner state')
    body = rename(('block', st[1:], tk['body'][2]), var, 'self')
    tx.cache['tokenize_body'] = dict(name='tokenize_body', params=[('self', '&mut Self')], ret=tk['ret'], body=body, let_types=tk.get('let_types', {}))
    tx.method('tokenize_body')
    head = ('/-\n  SlacModel.Generated.SrcScanner — GENERATED on every check run by /verif/tools/rs2lean_scanner.py from the CURRENT text of /repo/src/scanner.rs\n'
            '  (`impl Scanner`).  Do not edit.  SlacProps/C02Scanner.lean proves that SlacModel/Scanner.lean is this function.\n-/\n'
            'import SlacModel.SrcScannerPrelude\nimport SlacModel.Scanner\nset_option autoImplicit false\nset_option linter.unusedVariables false\nnamespace Slac.Generated.SrcScanner\n'
            'open Slac Slac.SrcScanner\nvariable {N : Type} [NumOps N]\n\n')
    tail = ('\n\n/-- `Scanner::tokenize`: the body above run on `Scanner { source, start: 0, current: 0, end: source.chars().count() }` -/\n'
            'def tokenize (fuel : Nat) (cc : Scanner.CharClass) (src : Str) : COut N (List (Token N)) := run (tokenize_body (N := N) fuel cc src) ⟨0, 0⟩\n')
    return head + '\n\n'.join(tx.defs) + tail + '\nend Slac.Generated.SrcScanner\n'

if __name__ == '__main__':
    a = sys.argv[1:]
    src = a[a.index('--src') + 1] if '--src' in a else '/repo/src'
    try: print(gen_scanner(src))
    except Unrecognised as e: print('unrecognised:', e); sys.exit(3)
