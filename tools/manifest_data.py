TB = ("Trusted: Lean 4.33 kernel; axioms propext/Classical.choice/Quot.sound only (audited by #print axioms on every run; no sorry/admit/axiom/native_decide); "
      "the model in lean/SlacModel is hand-written and tied to /repo by the correspondence check (differential, bounded: counts in the evidence); ")
CHECKS = [
 dict(property_id='C03', design_ref='DESIGN.md 7 C03, Appendix A',
      technique='Lean 4 refinement proof (interpreter model = language-definition spec, induction over trees) + model/code correspondence check',
      text='Proved in Lean for all trees, environments and number implementations: the interpreter model returns exactly the value or winning error of the '
           'language definition (execute_eq_spec), Boolean results, no coercion in arithmetic, undefined-variable rules. The model is tied to the crate on every run by '
           'the enumerated operator x kind x kind x {defined,undefined,failing} table and random nested trees; the Spec is also run directly against the crate as the falsifier.',
      note=TB + "core Float operations implement core's Float.Model; bit-level trunc/fmod/parse definitions tied by the num stream."),
 dict(property_id='C04', design_ref='DESIGN.md 7 C04',
      technique='Lean 4 refinement proof on result+event-trace pairs + correspondence through a recording Environment',
      text='Proved in Lean for all trees and environments: the sequence of variable lookups and native calls (with argument values) equals the prescribed one '
           '(trace_eq_spec) with laziness corollaries (and/or short circuit, conditional branches, argument lists). Tie: the same trees executed through a recording Environment.',
      note=TB + 'the recording Environment in harness/src/env.rs logs exactly the trait calls.'),
 dict(property_id='C12', design_ref='DESIGN.md 7 C12',
      technique='Lean 4 proof of fromJson(toJson e) = e by induction over trees (serde data-model level) + JSON correspondence and bit-exact round trips on the crate',
      text='Proved in Lean for all trees with finite number literals: deserialising the serialisation yields the identical tree (json_roundtrip), also through any faithful text layer; '
           'and the exact boundary: a non-finite literal serialises to null and is rejected (json_nonfinite_counterexample; recorded known finding). '
           'Tie: the canonical JSON produced by the crate is compared with the model; value- and text-route round trips are checked bit-exactly on the crate.',
      note=TB + 'serde_json text layer (built with float_roundtrip) and serde derive are trusted; non-finite literals are a recorded known finding (C12-nonfinite-literal).'),
]
_PENDING = 'not yet claimed: its model, theorems and streams are under construction in this framework (see DESIGN.md section 12, build order)'
NOT_APPLICABLE = [dict(property_id=p, reason=_PENDING) for p in
                  ['C01','C02','C05','C06','C07','C08','C09','C10','C11','C13','C14','C15','C16','C17','C18','C19']]
NOTES = ('All checks share one engine: tools/check.py <id>. Replays: tools/check.py <id> --replay <file>. '
         'known_findings.json lists recorded defects (KNOWN-FINDING lines) and fixed ones.')
