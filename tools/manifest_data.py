TB = ("Trusted: Lean 4.33 kernel; axioms propext/Classical.choice/Quot.sound only (audited by #print axioms on every run; no sorry/admit/axiom/native_decide); "
      "the model in lean/SlacModel is hand-written and tied to /repo by the correspondence check (differential, bounded: counts in the evidence); ")
CHECKS = [
 dict(property_id='C03', design_ref='DESIGN.md 7 C03, Appendix A',
      technique='Lean 4 refinement proof (interpreter model = language-definition spec, induction over trees) + model/code correspondence check',
      text='Proved in Lean for all trees, environments and number implementations: the interpreter model returns exactly the value or winning error of the '
           'language definition (execute_eq_spec), Boolean results, no coercion in arithmetic, undefined-variable rules; for the actual number type (core Float): + - * / are the IEEE operations, div = trunc(a/b) with the IEEE sign rule, mod is the exact C fmod with the dividend\'s sign and |r| < |y|, = and the ordering are IEEE ==/partial order with the documented NaN and Boolean coercion rules (C03Float). The model is tied to the crate on every run by '
           'the enumerated operator x kind x kind x {defined,undefined,failing} table and random nested trees; the Spec is also run directly against the crate as the falsifier. Second leg: tools/translate.py regenerates the operator arms of value.rs and the dispatch of interpreter.rs (unary, outer and inner match of binary, boolean::<FULL_EVAL>, ternary) from the source text on every run and C03Source.lean proves the compositional model is exactly those arms in source order.',
      note=TB + "core Float operations implement core's Float.Model; bit-level trunc/fmod/parse definitions tied by the num stream."),
 dict(property_id='C04', design_ref='DESIGN.md 7 C04',
      technique='Lean 4 refinement proof on result+event-trace pairs + correspondence through a recording Environment',
      text='Proved in Lean for all trees and environments: the sequence of variable lookups and native calls (with argument values) equals the prescribed one '
           '(trace_eq_spec) with laziness corollaries (and/or short circuit, conditional branches, argument lists). Tie: the same trees executed through a recording Environment; the translated interpreter arms (C03Source.lean) are re-checked on every run.',
      note=TB + 'the recording Environment in harness/src/env.rs logs exactly the trait calls.'),
 dict(property_id='C12', design_ref='DESIGN.md 7 C12',
      technique='Lean 4 proof of fromJson(toJson e) = e by induction over trees (serde data-model level) + JSON correspondence and bit-exact round trips on the crate',
      text='Proved in Lean for all trees with finite number literals: deserialising the serialisation yields the identical tree (json_roundtrip), also through any faithful text layer; the serde_json text layer itself is modelled (JsonText.lean: printer, depth-limited reader) and proved: a tree with finite literals survives the TEXT route iff its JSON nests at most 127 containers (json_roundtrip_text_iff); '
           'and the exact boundary: a non-finite literal serialises to null and is rejected (json_nonfinite_counterexample; recorded known finding). '
           'Tie: the canonical JSON value AND the JSON text produced by the crate are compared with the model (text byte for byte), incl. 300-level trees; value- and text-route round trips are checked bit-exactly on the crate.',
      note=TB + 'serde derive is trusted; serde_json\'s number printing algorithm (zmij) is modelled as shortest-round-trip with ties to even and tied by comparison; recorded known findings: non-finite literals (C12-nonfinite-literal), text deeper than 127 containers (C12-text-depth-limit).'),

 dict(property_id='C01', design_ref='DESIGN.md 7 C01',
      technique='Lean 4 proof (Pratt-loop key lemma by induction over the rendering judgement; fuel bound) + parser/scanner correspondence incl. exhaustive token-kind sequences',
      text='Proved in Lean for every tree and EVERY rendering of it (mutual judgement Bare/Rn/RnList covers minimal, full and any redundant parenthesisation): parse ts = ok e (parse_rendering, parse_renderMin, parse_renderFull); '
           'everything the parser accepts is source-expressible and re-rendering reproduces it (parse_wf, reparse, reparse_any); renderings are unambiguous (renders_injective). '
           'Tie: all token-kind sequences of length <=4/<=5 and random longer ones against Compiler::compile_ast; text level against compile. Falsifier: render -> compile -> bit-exact comparison on the crate. Second leg: tools/translate.py regenerates the precedence / operator / dispatch / keyword tables from the source text on every run and C01Source.lean proves the model parser and scanner are those tables plugged into the Pratt skeleton.',
      note=TB + 'token texts/layout are the scanner\'s part (C02); the harness renderer is trusted to implement the documented precedence table.'),
 dict(property_id='C02', design_ref='DESIGN.md 7 C02',
      technique='Lean 4 proof over a structural scanner model (separator grammar invisibility, n-ary layout theorem, string/keyword/number lemmas) + scanner correspondence incl. exhaustive fragment sequences',
      text='Proved in Lean: separators (whitespace, // comments, nested { } comments) in front of any input are invisible (scan_sep_invariant), the n-ary layout theorem scan_layout with the exact fusion condition, '
           'string literals denote exactly their content for every character sequence (scan_string_literal), all ASCII case variants of the 8 keywords (keyword_case), identifiers keep their spelling, '
           'the four decimal spellings denote the double NEAREST (ties to even) to their decimal value, +inf beyond the overflow threshold (scan_number_nearest, proved from core Float.ofScientific). Tie: all fragment sequences <=3/<=4 + random texts; decimal->nearest double by the num stream. Falsifier: metamorphic layout variants on the crate.',
      note=TB + 'Unicode character classes are Rust std tables dumped into SlacModel/UnicodeTables.lean (theorems hold for every CharClass with the stated ASCII behaviour); '
           'nearest-double conversion is the exact rational model of Num.lean tied by the num stream.'),
 dict(property_id='C05', design_ref='DESIGN.md 7 C05',
      technique='Lean 4 proof (fold_preserves by induction over trees; refinement order for resolved trees) + optimizer correspondence',
      text='Proved in Lean for all trees/environments/number types: fold_constants preserves the full result (value or error, any bindings, also the partially rewritten tree of a failed pass); optimize preserves it for trees without 3-argument if_then; '
           'for resolved trees with the standard if_then a value before is the identical value after (optimize_preserves_value, incl. failed runs). The hypothesis is shown necessary by a counterexample. '
           'Tie: optimized trees compared node for node with the crate; falsifier: execute before/after on the crate.',
      note=TB + 'environment functions are Lean functions (history independent), exactly the property\'s proviso.'),
 dict(property_id='C06', design_ref='DESIGN.md 7 C06',
      technique='Lean 4 proof (decreasing measure; trace purity; stable-round lemma) + optimizer correspondence with a recording Environment',
      text='Proved in Lean: optimize terminates within mu e + 1 rounds, performs only calls of functions reported pure for that arity with literal arguments and no lookup, is idempotent, leaves no constant-foldable node, never grows the tree. '
           'Tie: the events optimize performs on a recording Environment, the result tree and re-optimisation compared with the crate; the falsifier inspects the real result for foldable nodes by the property\'s own definition.',
      note=TB + 'wall-clock is observed (per-case timeout), not proved.'),
 dict(property_id='C07', design_ref='DESIGN.md 7 C07',
      technique='Lean 4 totality proofs (structural scanner; parser fuel 3n+1 sufficient, depth bounds) + crash-observing correspondence in child processes',
      text='PARTIAL by nature: proved in Lean that scanner and parser models are total (never outOfFuel/panic: scan_total, parse_total), fuel linear in the token count suffices, recursion depth <= tokens+1 and <= 9(1+openers). '
           'Rust stack frames and wall-clock cannot be expressed in Lean: every correspondence case runs in a worker process; a dead or hung worker is bisected to the killing input, which is then the replay. '
           'Exhaustive fragment/token-kind scopes, truncations, mutations, nesting to 64, inputs to 4096 characters.',
      note=TB + 'real stack depth / time are observed, not proved.'),
 dict(property_id='C10', design_ref='DESIGN.md 7 C10',
      technique='Lean 4 proof (validator soundness by induction, arity characterisation, error provenance) + validator correspondence',
      text='Proved in Lean: an accepted tree never evaluates to UndefinedVariable or FunctionNotFound in a lawful environment (StaticEnvironment is lawful unless a native function itself returns FunctionNotFound - shown necessary), '
           'function_exists <-> n in the registered arity range for all four arity kinds, a rejection names an offending node of the tree. The tree is still accepted after optimize, also the partially rewritten tree of a failed run (check_stable_under_optimize; the converse is shown false). On the tables regenerated from the running crate: registry answers = arity ranges, and no call within arity with documented kinds answers WrongParameterCount (1365 kind tuples x 77 builtins, decide +kernel).',
      note=TB + 'the dispatch table is obtained by executing every builtin on representative values of each kind tuple (finite table, regenerated per run); the dcall stream adds random values of the documented kinds.'),
 dict(property_id='C11', design_ref='DESIGN.md 7 C11',
      technique='Lean 4 proof by induction using the Boolean-result lemmas of the interpreter model + validator correspondence',
      text='Proved in Lean: if check_boolean_result accepts a tree and its result-position variables/calls yield Booleans, every successful evaluation yields a Boolean (bool_result), for all environments incl. undefined operands; '
           'exact characterisation of accepted trees (accepts_iff) and the rejections incl. nested branches. Tie + falsifier: verdicts and results on the crate.',
      note=TB),
 dict(property_id='C13', design_ref='DESIGN.md 7 C13',
      technique='Lean 4 proof (orientation for all values; transitivity on the Safe domain; sort/min/max laws; kernel-checked counterexamples) + ordering correspondence and law checking on the crate',
      text='Proved in Lean for ALL values: a<b iff b>a, a<=b iff not a>b, = symmetric, compare in {-1,0,1} consistent, between, min/max members, sort a permutation. On Safe collections (no NaN, not both numeric strings and Numbers): '
           'transitivity, total preorder, sort sorted/idempotent/unique stable permutation, min/max bound. Outside Safe the property is FALSE of the code: kernel-checked witnesses; recorded as known finding C13-unsafe-collection. '
           'LawfulNum Float proved on bit patterns. Tie: cmp/operators/builtins vs model; falsifier: laws evaluated on the crate.',
      note=TB + 'bit-pattern ordering of Num.lean tied to hardware comparison by the num/cmp streams; slice::sort stable (std).'),
 dict(property_id='C19', design_ref='DESIGN.md 7 C19',
      technique='Lean 4 refinement proof to an abstract map (induction over operation histories, any key-folding function) + exhaustive small histories and a Rust reference map',
      text='Proved in Lean for every history and every fold function: all observations equal those of a map from folded names to the latest entry (env_refines), spelling irrelevance, remove returns stored, clear keeps functions, '
           'namespaces disjoint, evaluation invariant under case changes of identifiers (eval_case_invariant). Tie: all histories <=3/<=4 over a 19-op alphabet with every lookup after every step + random long histories; falsifier: BTreeMap reference.',
      note=TB + 'which non-ASCII spellings fold together is str::to_lowercase\'s business (tables from Rust std).'),

 dict(property_id='C08', design_ref='DESIGN.md 7 C08',
      technique='Lean 4 totality/termination/bounded-work theorems over unrestricted trees + crash-observing correspondence on ill-formed and deep trees in child processes',
      text='PARTIAL by nature: the model\'s tree functions are total structural recursions over an inductive type without well-formedness conditions; proved: optimize never runs out of fuel (<= 2*nodes+1 rounds), execution performs at most one event per node, '
           'validators decide every tree, misplaced operators are error values. "Returns normally" for the CODE rests on the tie: every tree stream on the ill-formed generator and on spines nested to 64, in worker processes (class ok/err/crash/timeout).',
      note=TB + 'real stack depth / time observed, not proved.'),
 dict(property_id='C09', design_ref='DESIGN.md 7 C09',
      technique='Lean 4 proofs of SLAC\'s own index arithmetic + kernel-decided regenerated dispatch table + crash-observing call stream in 4 builds',
      text='PARTIAL by nature: the builtin models are total functions without a panic outcome. Proved: get_index/get_string_index never underflow and are exact in both offset configurations; on the table regenerated from the running crate no builtin panicked on any of 1365 kind tuples (decide +kernel). '
           'The tie runs all 77 builtins on boundary-heavy argument lists in worker processes in all 4 builds and compares answers with the model. chrono\'s formatter and parsers and regex-lite are now inside the model (TimeFmt/TimeParse/RegexEngine) with totality theorems, so their calls are compared too; the date/time builtins also run under DST zones east and west of Greenwich. Recorded known findings: sort() on collections outside the Safe ordering domain can panic inside slice::sort; string_to_date with %G and the year at an i32 limit panics inside chrono in overflow-checked builds.',
      note=TB + 'panics inside chrono / slice::sort / regex-lite, memory and time are visible only to the crash-observing run.'),
 dict(property_id='C14', design_ref='DESIGN.md 7 C14',
      technique='Lean 4: builtin models are functions of their arguments; kernel-decided regenerated registry table; folding-is-calling theorem + repeated-call and two-process determinism check',
      text='PARTIAL by nature: every pure builtin\'s model is a Lean function of its argument list (no state/clock/seed), so the content is the tie; proved: exactly random and choice are registered impure (regenerated table), folding a pure call writes exactly env.call\'s answer, impure calls are never folded, unique is first-occurrence dedup by ==. '
           'The two impure builtins are modelled with the OS random word explicit (Nondet.lean): choice answers a member, every member is reachable, it fails exactly on the empty list (C14Nondet.lean); the nd stream asks the model whether some word explains each recorded answer. '
           'Observation: each argument list evaluated 20x in-process with other calls in between and in two separate processes in opposite order under a DST zone.',
      note=TB + '"fresh process, different hasher seed" is observation.'),
 dict(property_id='C18', design_ref='DESIGN.md 7 C18',
      technique='Lean 4 proofs about the regex wrappers over an abstract engine; the engine laws PROVED for a concrete model of regex-lite (parser, leftmost-first matcher, find_iter, interpolation) + exact correspondence of that model with the crate on random-grammar patterns',
      text='The four wrappers are modelled over an abstract Engine; proved: is_match iff find non-empty, capture shape and equal lengths, replace = replacen with the documented defaults and limit, escaped literals = contains/count/replace — each relative to explicit engine laws — and invalid pattern => error with no law. '
           'A concrete engine (SlacModel/RegexEngine.lean) models regex-lite 0.1.9: every parse error branch, nest and size limits, leftmost-first matching with captures, the find_iter empty-match rule, $-interpolation; C18Engine.lean proves LawfulEngine and restates every theorem with no engine hypothesis, the escaped-literal law, soundness w.r.t. a declarative Matches relation and fuel sufficiency. PARTIAL in one respect: that regex-lite\'s PikeVM computes the model\'s function is the behavioural tie (rex/rexvalid/rexcall streams, exact comparison), not a theorem; patterns with a nullable body under an unbounded loop, flag x and non-ASCII group names are outside the model. '
           'Tie: wrapper outputs compared exactly given the raw engine answers; the concrete engine compared exactly on random-grammar patterns; the property\'s relations are evaluated on the crate by relaw.',
      note=TB + 'the engine laws of C18.lean are proved for the model engine (C18Engine.lean); regex-lite = model engine is differential testing.'),

 dict(property_id='C15', design_ref='DESIGN.md 7 C15',
      technique='Lean 4 proofs: builtin models = independent sequence specification; position-coherence laws for both index bases + builtin correspondence in both builds',
      text='Proved in Lean: the search family (contains/find/count/replace/split) equals an independent specification written with List.IsInfix/IsPrefix and leftmost non-overlapping occurrences (incl. the empty needle), split is the unique decomposition, '
           'at enumerates the string over first..first+length-1 and fails outside, copy(s, find(s,x), length(x)) = x for every substring, failed find = first-1 (arrays -1), insert/copy/length coherence, reverse involutive, unique = first-occurrence dedup, csv/trim/case functions — for both offsets and all strings (characters, not bytes). '
           'Tie: 21 builtins in both index-base builds against the model; falsifier: the laws evaluated on the builtins.',
      note=TB + 'LawfulIdx Float is proved, so the position theorems hold for binary64 unconditionally (C15Float); Unicode case tables from Rust std.'),

 dict(property_id='C16', design_ref='DESIGN.md 7 C16',
      technique='Lean 4 proofs: calendar bijection by omega for all years, rounding bound over Q (Mathlib) for decode(encode), builtin specifications + exhaustive date / millisecond enumeration against the crate',
      text='Proved in Lean: days-from-civil and civil-from-days are mutually inverse for ALL dates (every integer year), day numbering starts at 1970-01-01 and steps by one per calendar day, weekday/leap/month-length rules, addMonths = whole months with clamping; '
           'for every number type satisfying LawfulTimeNum: decode(encode t) = t for all valid dates of years 1-9999 x all milliseconds, every component extractor, encode_date/encode_time specifications and rejections, default-format string round trips, inc_month, date+time = x. '
           'The rounding fact behind decode(encode) is proved over Q from the standard model of floating point. chrono\'s strftime formatter (every specifier), its format-driven parser and its RFC 3339 / RFC 2822 parsers are modelled (TimeFmt, TimeParse, TimeRfc) with 72 further theorems (C16Rfc): RFC 3339 round trip exact to the ms, RFC 2822 to the second, strftime fails iff the format contains a failing item, one theorem per specifier, totality. Tie: quick = sampled ranges; thorough = all 3.65 M dates and all 86.4 M ms evaluated on the crate and on the model (digest comparison); tm* streams feed the crate\'s own texts back through the parsers.',
      note=TB + 'LawfulTimeNum Float is proved from core Float.Model (standard model for * and / on normal results, then the round-trip identity), so the theorems hold for binary64 unconditionally (C16Float); chrono beyond the modelled calendar/format subset is skipped and counted.'),

 dict(property_id='C17', design_ref='DESIGN.md 7 C17, 15.2',
      technique='Lean 4 proofs on core Float.Model through a proved bits bridge: parse(display x) = x for every double, trunc/frac/round/even/hex characterisations, chr/ord inverse + builtin correspondence and std/libm comparison on the crate',
      text='Proved in Lean: float(str(x)) = x for EVERY double, unconditionally (shortest-digit search finds a candidate within 17 digits; Float.ofScientific rounds correctly; parse reads back what display emits); chr/ord mutually inverse on 0-127 and rejecting all other code points and strings; '
           'int_to_hex = upper-case base-16 numeral of the truncated value; even/odd = divisibility for every integer-valued double; trunc idempotent/toward zero, trunc+frac = x bit for bit (finite, except -0), round = nearest integer with ties away from zero; wrappers = library functions with the documented defaults and error arms. '
           'Observation recorded: chr accepts fractional positions inside 0..127 (as u32 truncation). Tie: builtins vs model; falsifier: builtins vs f64 methods bit for bit, all code points exhaustively.',
      note=TB + 'libm functions are parameters (the property only says the builtin is the library function); the F64 bridge relates SlacModel/Num.lean bit-level definitions to core Float.Model and is proved, the compiled Float operations implementing Float.Model is core Lean\'s claim.'),
]
_PENDING = 'not yet claimed: its model, theorems and streams are under construction in this framework (see DESIGN.md section 12, build order)'
NOT_APPLICABLE = []
NOTES = ('All checks share one engine: tools/check.py <id>. Replays: tools/check.py <id> --replay <file>. '
         'known_findings.json lists recorded defects (KNOWN-FINDING lines) and fixed ones.')

# third leg of the tie (DESIGN 15.9): whole functions re-translated from the Rust source on every run (tools/rsparse.py + tools/rs2lean.py)
_SRC = {
 'C01': 'Third leg: tools/rs2lean_parser.py re-translates the WHOLE parser (src/compiler.rs, impl Compiler: compile_ast, compile, expression, parse_precedence with its while loop, do_prefix, do_infix, expression_list with its loop, call, array, binary, unary, grouping, advance, current, previous, chomp) from the current source text into a state-monad program over the cursor (Generated/SrcParser.lean) on every run; C01Parser.lean proves by simulation (cursor into the token vector <-> remaining tokens) that the hand-written Pratt model equals it (parsePrec_is_source, doPrefix_is_source, infixLoop_is_source, doInfix_is_source, exprList_is_source; parse_is_source: Compiler::compile_ast = Parser.parse), so parse_rendering and the other parser theorems are re-checked against what compiler.rs says now.',
 'C07': 'Third leg for the parser: src/compiler.rs is re-translated into Lean on every run (tools/rs2lean_parser.py, usize subtraction below zero = panic outcome, every recursive call and loop iteration spends fuel) and C01Parser.lean proves compile_ast_total: the translated Compiler::compile_ast never reaches the usize underflow / PreviousTokenNotFound of previous() and returns within 3n+1 levels of recursion on n tokens, for every token vector; parse_is_source ties the totality theorems of the model to it.',
 'C03': 'Third leg: tools/rs2lean.py re-translates the WHOLE interpreter (interpreter.rs: expression/unary/binary/boolean/ternary/get_values/array/variable/call, and lib.rs execute) and the ordering half of value.rs (Ord::cmp, PartialEq::eq, is_empty, as_bool) from the current source text into Lean on every run; C04Source.lean (interp_is_source, execute_is_source) and C13Source.lean (cmp_is_source, eq_is_source) prove the hand-written model equal to the generated functions, so execute_eq_spec is re-checked against what the source says now.',
 'C04': 'Third leg: the interpreter is re-translated from interpreter.rs into a writer monad whose log is the sequence of Environment::variable / Environment::call invocations (Rust evaluation order = order of the binds); C04Source.lean proves result AND trace of the model equal to the generated function for every tree and every initial log (interp_is_source, trace_is_source).',
 'C05': 'Third leg: optimizer.rs (transform_ternary, fold_constants, optimize, expressions_are_const; functional translation of the &mut borrows, loop as fuel recursion) is re-translated from the source on every run and C05Source.lean proves transform / fold (tree, flag, error: also the partially rewritten tree) / optimize of the model equal to it.',
 'C06': 'Third leg: optimizer.rs is re-translated from the source on every run (tools/rs2lean.py); C05Source.lean proves the model optimizer equal to the generated one (transform_is_source, fold_is_source, optimize_is_source), so termination / purity / minimal-fixpoint theorems are re-checked against the current source.',
 'C10': 'Third leg: validate.rs (check_variables_and_functions, check_expressions) and the Environment impl of environment.rs (function_exists arity arithmetic, variable_exists, call, variable; get_env_key = to_lowercase) are re-translated from the source on every run; C10Source.lean and C19Source.lean prove the model equal to the generated functions.',
 'C11': 'Third leg: check_boolean_result is re-translated from validate.rs on every run (tools/rs2lean.py) and C10Source.checkBool_is_source proves the model validator equal to it.',
 'C13': 'Third leg: Ord::cmp, PartialEq::eq, ordinal, empty, is_empty, as_bool of value.rs are re-translated from the source on every run (partial_cmp must be Some(self.cmp(other))); C13Source.lean proves Value.cmp / Value.eq / isEmpty / asBool of the model equal to the generated functions, so the ordering theorems are about what the source says now.',
 'C19': 'Third leg: impl Environment for StaticEnvironment (variable, call, variable_exists, function_exists) and get_env_key are re-translated from environment.rs on every run; C19Source.lean proves the observations of the model (getVariable, call, variableExists, functionExists, toEnv) equal to the generated functions.',
}
for _c in CHECKS:
    if _c['property_id'] in _SRC:
        _c['text'] = _c['text'] + ' ' + _SRC[_c['property_id']]
        _c['technique'] = _c['technique'] + ' + source-to-Lean translation of the functions with kernel-checked equality to the model'
        _c['note'] = _c['note'] + ' The translator tools/rs2lean.py (how it reads Rust: ownership erased, Result/Option as monads, &mut as returned values, evaluation order as bind order) is trusted; outside its subset it reports `unrecognised` and the Source theorems are not claimed in that run.'
