#!/usr/bin/env python3
"""
Random-grammar generator of regex builtin calls (re_is_match / re_find / re_capture / re_replace) as `call` protocol lines:
patterns from a grammar over literals, escapes, classes (incl. POSIX, negated, ranges), quantifiers (greedy/lazy/counted), groups
(capturing, non-capturing, named, flag groups), anchors, alternation, nest-limit probes, and a malformed stream; haystacks over small
alphabets incl. non-ASCII, CR/LF; replacement strings with every `$` reference form; limits incl. fractional, NaN, infinite.
usage: regexgen.py <n> <seed> [mix|valid|lit]      (every random choice derives from the one seeded PRNG)
"""
import random,sys,struct
def S(s):
    b=s.encode('utf-8')
    return 'S'+(b.hex() if b else '-')
def call(name,*args):
    return 'call 1 %s %d %s'%(name.encode().hex(),len(args),' '.join(args))
n=int(sys.argv[1]); seed=int(sys.argv[2]); mode=sys.argv[3] if len(sys.argv)>3 else 'mix'
R=random.Random(seed)
BAD=0.0 if mode=='valid' else 1.0
ALPHA=list('aabbbc') + list('abcABCxyZ019_ -.\n') + ['ä','ß','Σ','𝄞','é','\r','\t','$','+','(',')','[',']','{','}','|','*','?','^','\\','#','&','~',',',':','<','>','=','!','P','i','k']
def hay():
    k=R.choice([0,1,2,3,4,5,6,8,10,14])
    pool=R.choice([list('ab'),list('abc'),list('aab1 '),list('abc \n'),ALPHA,list('aAbB'),list('ab\r\n'),list('aä𝄞b')])
    return ''.join(R.choice(pool) for _ in range(k))
LIT=list('aaabbbc')+list('ABxyz01_ -')+['ä','𝄞','ß','\n','Q','E']
ESC=['\\d','\\w','\\s','\\D','\\W','\\S','\\b','\\B','\\.','\\\\','\\n','\\t','\\r','\\a','\\f','\\v','\\A','\\z','\\x61','\\x{62}','\\u0063','\\U00000061','\\x{1D11E}','\\-','\\#','\\ ','\\/','\\<','\\>','\\b{start}','\\b{end}','\\b{start-half}','\\b{end-half}','\\+','\\*','\\?','\\(','\\)','\\[','\\]','\\{','\\}','\\^','\\$','\\|','\\&','\\~','\\%','\\"']
BADESC=['\\1','\\p','\\pL','\\e','\\q','\\x','\\xg1','\\x{','\\x{}','\\x{110000}','\\x{d800}','\\u12','\\b{foo}','\\b{','\\b{start','\\ä','\\Z','\\','\\uD800','\\U00110000','\\x{00000000061}','\\b{1}']
CLSITEM=['a','b','c','a-c','a-b','0-9','A-Z','x','_','\\d','\\w','\\s','\\D','\\W','\\S','\\n','\\-','\\]','\\\\','ä','ä-𝄞','[:alpha:]','[:digit:]','[:^alpha:]','[:space:]','[:word:]','[:punct:]','[:upper:]','[:lower:]','[:alnum:]','[:xdigit:]','-','.','^','$','|','(','*','\\x61','\\x61-\\x63','X-c','X-`a-c',' ','&','~','\\b','\\.']
BADCLS=['c-a','\\d-z','a-\\d','[a]','[:foo:]','&&','--','~~','[:alpha','\\B','\\A','a-','\\1','\\e','[']
def cls():
    s='['
    if R.random()<0.25: s+='^'
    if R.random()<0.1: s+='-'*R.randint(1,2)
    if R.random()<0.08: s+=']'
    for _ in range(R.randint(0 if len(s)>1 else 1,4)):
        s+=R.choice(BADCLS) if R.random()<0.04*BAD else R.choice(CLSITEM)
    if R.random()<0.08: s+='-'
    if R.random()>0.03*BAD: s+=']'
    return s
def quant():
    r=R.random()
    if r<0.5: q=R.choice(['*','+','?'])
    elif r<0.9 or BAD==0:
        a=R.choice([0,0,1,1,2,3]); b=a+R.choice([0,1,2])
        q=R.choice(['{%d}'%a,'{%d,}'%a,'{%d,%d}'%(a,b),'{%d,%d}'%(a,b)])
    else:
        q=R.choice(['{','{}','{,2}','{2,1}','{1,','{1','{a}','{ 1 }','{1 , 2}','{1, 2 }','{99999999999}','{4294967295}','{4294967296}','{1000}','{0,1000}','{200,}','{3,2}','{1,2','{1,2x}','{ 2,}','{2, }','{0}','{0,0}','{1,1}','{01}','{1}{2}'])
    if R.random()<0.25: q+='?'
    return q
NAMES=['n','y','x1','_a','ab','a.b','a[0]','N']
import itertools
_cnt=itertools.count()
def atom(d):
    r=R.random()
    if r<0.38: return R.choice(LIT)
    if r<0.50: return R.choice(ESC)
    if r<0.52: return R.choice(BADESC) if BAD else R.choice(ESC)
    if r<0.60: return '.'
    if r<0.70: return cls()
    if r<0.74: return R.choice(['^','$'])
    if d<=0: return R.choice(LIT)
    r=R.random()
    inner=alt(d-1)
    if r<0.45: return '('+inner+')'
    if r<0.65: return '(?:'+inner+')'
    if r<0.75: return '(?P<%s>'%(R.choice(NAMES) if BAD else R.choice(NAMES)+str(next(_cnt)%7))+inner+')'
    if r<0.82: return '(?<%s>'%(R.choice(NAMES) if BAD else R.choice(NAMES)+str(next(_cnt)%7))+inner+')'
    if r<0.90: return '(?'+R.choice(['i','s','m','U','R','u','is','i-s','-i','im','sR','mR','-x']+(['x','i-'] if BAD else []))+':'+inner+')'
    if r<0.95 and BAD: return R.choice(['(?=','(?!','(?<=','(?<!','(?P<','(?P<>','(?P<1a>','(?P<a-b>','(?P<é>','(?<n','(?P=n','(?','(?)','(?i','(?ii)','(?i-i)','(?z)','(?--i)','(?-)','(?i-)','(?P>n)'])+inner+')'
    return '('+inner+(')' if BAD==0 else '')
def piece(d):
    a=atom(d)
    if R.random()<0.35: a+=quant()
    if R.random()<0.03: a+=quant()
    return a
def cat(d):
    k=R.choice([0,1,1,2,2,3,4])
    s=''
    for _ in range(k):
        if R.random()<0.04: s+=R.choice(['(?i)','(?s)','(?m)','(?U)','(?R)','(?mR)','(?-i)','(?u)','(?is)','(?i-s)'])
        s+=piece(d)
    return s
def alt(d):
    k=R.choice([1,1,1,2,2,3])
    return '|'.join(cat(d) for _ in range(k))
def pattern():
    r=R.random()
    if r<0.025*BAD:
        # an invalid pattern padded to 1..100 bytes with characters of 1-4 bytes (what an error message that abbreviates the pattern would cut)
        p=''; target=R.randint(1,100)
        while len(p.encode())<target: p+=R.choice(['a','b','1',' ','é','ß','日','𝄞','x','-'])
        return p+R.choice(['(','[','a{2,1}','*','\\','(?P<','[z-a]'])
    if r<0.03:
        d=R.choice([5,20,48,49,50,51,52,60]); k=R.choice(['(','(?:','(a|','(?:a|']); 
        if R.random()<0.5: return k*d+'a'+')'*d
        return k*d+'a'+(')'+R.choice(['*','?','{2}','+']))*d
    if r<0.05:
        d=R.choice([10,48,49,50,51,52]); return 'a'+R.choice(['?','{2}','{1,2}','*'])*d
    if r<0.07: return 'a'*R.choice([40,60])
    if r<0.09: return '|'.join('a' for _ in range(R.choice([40,60])))
    p=alt(R.choice([0,1,2,2,3]))
    if R.random()<0.03*BAD: p+=R.choice([')','\\','[','(','{','*'])
    if R.random()<0.03*BAD: p=R.choice([')','*','+','?','{1}','|'])+p
    return p
REPS=['','x','$1','$0','$0$0','${y}','${n}','$n','$','$$','-','yy','$1a','${1}a','$2','<$1|$2>','$n1','${n}1','$x1','${','${1','${}','${+1}','${ 1}','$_a','${a.b}','${a[0]}','$ab','$abc','$$1','$$$1','$99999999999999999999999','${99999999999999999999999}','$-','ä$1ä','$ä','${ä}','$1$','$01','${001}','$+1','[$0]','$N']
def num(x): return 'N%016x'%struct.unpack('>Q',struct.pack('>d',x))[0]
FNS=['re_is_match','re_find','re_capture','re_replace']
def esc(s):
    return ''.join(('\\'+c if c in '\\.+*?()|[]{}^$#&-~' else c) for c in s)
HIST=[]
for _ in range(n):
    f=R.choice(FNS)
    h=hay()
    if mode=='lit' or (mode=='mix' and R.random()<0.08):
        k=R.choice([0,1,1,2,3]); 
        lit=h[R.randrange(0,len(h)+1):][:k] if h and R.random()<0.7 else ''.join(R.choice(ALPHA) for _ in range(k))
        p=esc(lit)
    else: p=pattern()
    # 1 in 7: a pattern used at least 64 calls ago comes back (with a haystack it matches differently from its successors)
    if len(HIST)>70 and R.random()<0.14: p=R.choice(HIST[:-64])
    HIST.append(p)
    if len(HIST)>400: HIST.pop(R.randrange(0,200))
    args=[S(h),S(p)]
    if f=='re_replace':
        if R.random()<0.85:
            args.append(S(R.choice(REPS)))
            if R.random()<0.5: args.append(num(R.choice([0.0,1.0,2.0,3.0,0.5,1.9,-1.0,1e300,float('nan'),float('inf'),5.0])))
    print(call(f,*args))
