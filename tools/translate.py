#!/usr/bin/env python3
"""
Source-level translator for the lexical / grammar TABLES of SLAC.

Reads /repo/src/{token,operator,scanner,compiler}.rs as they are NOW and writes
/verif/lean/SlacModel/Generated/Grammar.lean: the same tables as Lean functions over the model's Token / Op types.
SlacProps/C01Source.lean then proves that the hand-written model (Token.prec, Parser.nextPrec, Token.binOp?,
Scanner.keywords, Scanner.nextToken, Parser.doPrefix / doInfix) IS these tables plugged into the Pratt skeleton, so a
change of a table in the source breaks a proof obligation directly (and not only a behavioural comparison).

Only a narrow, fixed subset of Rust is understood: `enum` variant lists and `match` expressions whose arms are
`Pat | Pat => expr,` with path patterns.  When the source no longer has that shape the translator reports
`unrecognised` (exit 3) and writes nothing: that is NOT a violation, the behavioural tie (exhaustive token-kind
sequences, all code points) still decides; the check records the fact in its evidence.
usage: translate.py [--out FILE] [--src DIR]      exit 0 = written/unchanged, 3 = source shape not recognised
"""
import re, sys, os

class Unrecognised(Exception): pass

def strip_comments(s):
    s = re.sub(r'//[^\n]*', '', s)
    return re.sub(r'/\*.*?\*/', '', s, flags=re.S)

def block_after(s, start):
    """text of the brace block that opens at or after index start (without the outer braces)"""
    i = s.find('{', start)
    if i < 0: raise Unrecognised('no block')
    depth = 0; j = i; in_chr = False
    while j < len(s):
        c = s[j]
        if c == "'" and j + 2 < len(s) and (s[j + 2] == "'" or (s[j + 1] == '\\' and s[j + 3] == "'")):   # char literal
            j += 4 if s[j + 1] == '\\' else 3; continue
        if c == '"':
            j += 1
            while s[j] != '"': j += 2 if s[j] == '\\' else 1
            j += 1; continue
        if c == '{': depth += 1
        elif c == '}':
            depth -= 1
            if depth == 0: return s[i + 1:j]
        j += 1
    raise Unrecognised('unbalanced block')

def fn_body(s, name):
    m = re.search(r'\bfn\s+' + re.escape(name) + r'\s*(<[^>]*>)?\s*\(', s)
    if not m: raise Unrecognised(f'fn {name} not found')
    return block_after(s, m.end())

def enum_variants(s, name):
    m = re.search(r'\benum\s+' + name + r'\b', s)
    if not m: raise Unrecognised(f'enum {name} not found')
    body = block_after(s, m.end())
    body = re.sub(r'\([^)]*\)', '', body)
    return [v.strip() for v in body.replace('\n', ' ').split(',') if v.strip()]

def split_top(s, sep):
    """split at separator characters that are outside brackets and literals"""
    out, depth, cur, j = [], 0, '', 0
    while j < len(s):
        c = s[j]
        if c == "'" and j + 2 < len(s) and (s[j + 2] == "'" or s[j + 1] == '\\'):
            k = j + (4 if s[j + 1] == '\\' else 3); cur += s[j:k]; j = k; continue
        if c == '"':
            k = j + 1
            while s[k] != '"': k += 2 if s[k] == '\\' else 1
            cur += s[j:k + 1]; j = k + 1; continue
        if c in '([{': depth += 1
        if c in ')]}': depth -= 1
        if c == sep and depth == 0 and not (sep == '|' and s[j:j + 2] == '||'):
            out.append(cur); cur = ''
        else: cur += c
        j += 1
    if cur.strip(): out.append(cur)
    return out

def match_arms(body, scrutinee_re=r'[^{]*'):
    m = re.search(r'\bmatch\s+' + scrutinee_re + r'\{', body)
    if not m: raise Unrecognised('no match expression')
    inner = block_after(body, m.end() - 1)
    arms = []
    for a in split_top(inner, ','):
        if '=>' not in a: raise Unrecognised(f'arm without =>: {a.strip()[:40]}')
        pat, expr = a.split('=>', 1)
        arms.append(([p.strip() for p in split_top(pat, '|')], ' '.join(expr.split())))
    return arms

def lc(n): return n[0].lower() + n[1:]

def tok_pat(p):
    """Token::X / Token::Literal(v) / Token::Identifier(n) / _  ->  Lean pattern"""
    if p == '_': return '_'
    m = re.fullmatch(r'Token::(\w+)(\((.*)\))?', p)
    if not m: raise Unrecognised(f'token pattern {p}')
    return '.' + lc(m.group(1)) + (' _' if m.group(2) else '')

def translate(src):
    rd = lambda f: strip_comments(open(os.path.join(src, f)).read())
    token, operator, scanner, compiler = rd('token.rs'), rd('operator.rs'), rd('scanner.rs'), rd('compiler.rs')
    # drop the test modules (they contain functions with the same names)
    scanner = scanner.split('#[cfg(test)]')[0]; compiler = compiler.split('#[cfg(test)]')[0]
    out = []
    precs = enum_variants(token, 'Precedence')
    pidx = {p: i for i, p in enumerate(precs)}
    def prec(e):
        m = re.fullmatch(r'Precedence::(\w+)', e)
        if not m or m.group(1) not in pidx: raise Unrecognised(f'precedence {e}')
        return pidx[m.group(1)]
    # T1  impl From<&Token> for Precedence
    m = re.search(r'impl\s+From<&Token>\s+for\s+Precedence', token)
    if not m: raise Unrecognised('impl From<&Token> for Precedence')
    arms = match_arms(block_after(token, m.end()))
    out.append('/-- `impl From<&Token> for Precedence` (src/token.rs); precedences numbered by their position in `enum Precedence`: ' +
               ', '.join(f'{p}={i}' for p, i in pidx.items()) + ' -/')
    out.append('def tokenPrec : Token N → Nat')
    for pats, e in arms: out.append('  | ' + ' | '.join(tok_pat(p) for p in pats) + f' => {prec(e)}')
    # T2  Precedence::next
    arms = match_arms(fn_body(token, 'next'))
    out.append('/-- `Precedence::next` (src/token.rs) -/')
    out.append('def precNext : Nat → Nat')
    seen = set()
    for pats, e in arms:
        for p in pats: out.append(f'  | {prec(p)} => {prec(e)}'); seen.add(prec(p))
    if seen != set(range(len(precs))): raise Unrecognised('Precedence::next does not list every level')
    out.append('  | n => n')
    out.append(f'def precCount : Nat := {len(precs)}')
    # T3  impl TryFrom<&Token> for Operator
    ops = enum_variants(operator, 'Operator')
    arms = match_arms(fn_body(operator, 'try_from'))
    out.append('/-- `impl TryFrom<&Token> for Operator` (src/operator.rs) -/')
    out.append('def tokenOperator : Token N → Option Op')
    for pats, e in arms:
        mm = re.fullmatch(r'Ok\(Operator::(\w+)\)', e)
        if mm:
            if mm.group(1) not in ops: raise Unrecognised(f'operator {e}')
            rhs = 'some .' + lc(mm.group(1))
        elif e.startswith('Err('): rhs = 'none'
        else: raise Unrecognised(f'operator arm {e}')
        out.append('  | ' + ' | '.join(tok_pat(p) for p in pats) + f' => {rhs}')
    # T4  keyword table of Scanner::identifier
    ib = fn_body(scanner, 'identifier')
    sm = re.search(r'\bmatch\s+([^{]*)\{', ib)
    if not sm: raise Unrecognised('identifier(): no match')
    folding = ' '.join(sm.group(1).split())
    arms = match_arms(ib)
    out.append(f'/-- keyword table of `Scanner::identifier` (src/scanner.rs), matched on `{folding}` -/')
    out.append('def keywords (N : Type) : List (Str × Token N) :=')
    rows = []
    for pats, e in arms:
        for p in pats:
            if p == '_':
                if not re.fullmatch(r'Token::Identifier\(\w+\)', e): raise Unrecognised(f'identifier default arm {e}')
                continue
            mm = re.fullmatch(r'"([A-Za-z]+)"', p)
            if not mm: raise Unrecognised(f'keyword pattern {p}')
            word = '[' + ','.join(f"'{c}'" for c in mm.group(1)) + ']'
            if e == 'Token::Literal(Value::Boolean(true))': t = '.literal (.bool true)'
            elif e == 'Token::Literal(Value::Boolean(false))': t = '.literal (.bool false)'
            elif re.fullmatch(r'Token::\w+', e): t = '.' + lc(e[7:])
            else: raise Unrecognised(f'keyword token {e}')
            rows.append(f'({word}, {t})')
    out.append('  [ ' + ',\n    '.join(rows) + ' ]')
    fold = {'ident.to_lowercase().as_str()': 'lower', 'ident.to_uppercase().as_str()': 'upper', 'ident.as_str()': 'exact',
            'ident.to_ascii_lowercase().as_str()': 'asciiLower'}.get(folding)
    if fold is None: raise Unrecognised(f'keyword folding `{folding}`')
    out.append('inductive Folding | lower | upper | exact | asciiLower deriving DecidableEq')
    out.append(f'/-- how `identifier` folds the word before the table lookup -/\ndef keywordFolding : Folding := .{fold}')
    # T5  single-character tokens of next_token, two-character operators of greater / lesser
    arms = match_arms(fn_body(scanner, 'next_token'), r'next\s*')
    out.append('/-- the arms of `match next` in `Scanner::next_token` that produce a token directly (src/scanner.rs) -/')
    out.append('def charToken : Char → Option (Token N)')
    other = []
    for pats, e in arms:
        for p in pats:
            if p == '_': continue
            mm = re.fullmatch(r"'(\\?.)'", p)
            if not mm: raise Unrecognised(f'char pattern {p}')
            ch = mm.group(1)
            me = re.fullmatch(r'Ok\(Token::(\w+)\)', e)
            if me: out.append(f"  | '{ch}' => some .{lc(me.group(1))}")
            else: other.append((ch, e))
    out.append('  | _ => none')
    out.append('/-- the arms of `match next` that call a scanner method: (character, method) -/')
    meth = {'self.string()': 0, 'self.number()': 1, 'Ok(self.greater())': 2, 'Ok(self.lesser())': 3}
    rows = []
    for ch, e in other:
        if e not in meth: raise Unrecognised(f'next_token arm {e}')
        rows.append(f"('{ch}', {meth[e]})")
    out.append('def charMethod : List (Char × Nat) := [' + ', '.join(rows) + ']   -- 0 string, 1 number, 2 greater, 3 lesser')
    for fn in ('greater', 'lesser'):
        arms = match_arms(fn_body(scanner, fn))
        rows = []; dflt = None
        for pats, e in arms:
            for p in pats:
                if p == '_':
                    mm = re.fullmatch(r'Token::(\w+)', e)
                    if not mm: raise Unrecognised(f'{fn} default {e}')
                    dflt = '.' + lc(mm.group(1)); continue
                mp = re.fullmatch(r"Some\('(.)'\)", p); me = re.fullmatch(r'self\.encounter_double\(Token::(\w+)\)', e)
                if not mp or not me: raise Unrecognised(f'{fn} arm {p} => {e}')
                rows.append(f"('{mp.group(1)}', .{lc(me.group(1))})")
        if dflt is None: raise Unrecognised(f'{fn}: no default')
        out.append(f'/-- `Scanner::{fn}`: second character -> two-character token; otherwise the default -/')
        out.append(f'def {fn}Table : List (Char × Token N) × Token N := ([' + ', '.join(rows) + f'], {dflt})')
    # T6  do_prefix / do_infix dispatch
    kinds = {'self.grouping()': 2, 'self.array()': 3, 'self.unary()': 4}
    arms = match_arms(fn_body(compiler, 'do_prefix'))
    out.append('/-- `Compiler::do_prefix` (src/compiler.rs): 0 literal, 1 variable, 2 grouping, 3 array, 4 unary, 5 NoValidPrefixToken -/')
    out.append('def prefixKind : Token N → Nat')
    for pats, e in arms:
        if e.startswith('Ok(Expression::Literal'): k = 0
        elif e.startswith('Ok(Expression::Variable'): k = 1
        elif e in kinds: k = kinds[e]
        elif e.startswith('Err(Error::NoValidPrefixToken'): k = 5
        else: raise Unrecognised(f'do_prefix arm {e}')
        out.append('  | ' + ' | '.join(tok_pat(p) for p in pats) + f' => {k}')
    arms = match_arms(fn_body(compiler, 'do_infix'))
    out.append('/-- `Compiler::do_infix` (src/compiler.rs): 0 binary, 1 call, 2 NoValidInfixToken -/')
    out.append('def infixKind : Token N → Nat')
    for pats, e in arms:
        if e == 'self.binary(left)': k = 0
        elif e == 'self.call(left)': k = 1
        elif e.startswith('Err(Error::NoValidInfixToken'): k = 2
        else: raise Unrecognised(f'do_infix arm {e}')
        out.append('  | ' + ' | '.join(tok_pat(p) for p in pats) + f' => {k}')
    # T7  the levels the Pratt skeleton is called with
    eb = fn_body(compiler, 'expression')
    mm = re.search(r'self\.parse_precedence\(Precedence::(\w+)\)', eb)
    if not mm: raise Unrecognised('expression(): entry level')
    out.append(f'/-- `expression()` parses at this level -/\ndef entryLevel : Nat := {pidx[mm.group(1)]}')
    ub = fn_body(compiler, 'unary')
    mm = re.search(r'self\.parse_precedence\(Precedence::(\w+)\)', ub)
    if not mm: raise Unrecognised('unary(): operand level')
    out.append(f'/-- `unary()` parses its operand at this level -/\ndef unaryOperandLevel : Nat := {pidx[mm.group(1)]}')
    bb = ' '.join(fn_body(compiler, 'binary').split())
    if 'self.parse_precedence(Precedence::from(self.previous()?).next())' in bb: nxt = 'true'
    elif 'self.parse_precedence(Precedence::from(self.previous()?))' in bb: nxt = 'false'
    else: raise Unrecognised('binary(): operand level')
    out.append(f'/-- `binary()` parses its right operand at the NEXT level above the operator (left associativity) -/\ndef binaryOperandNext : Bool := {nxt}')
    pb = ' '.join(fn_body(compiler, 'parse_precedence').split())
    if re.search(r'\|t\| precedence <= Precedence::from\(t\)', pb): le = 'true'
    elif re.search(r'\|t\| precedence < Precedence::from\(t\)', pb): le = 'false'
    else: raise Unrecognised('parse_precedence(): loop condition')
    out.append(f'/-- the infix loop continues while `precedence <= Precedence::from(token)` (true) / `<` (false) -/\ndef loopAbsorbsEqual : Bool := {le}')
    for fn in ('grouping',):
        if 'self.expression()' not in fn_body(compiler, fn): raise Unrecognised(f'{fn}(): inner level')
    if 'self.expression()' not in fn_body(compiler, 'expression_list'): raise Unrecognised('expression_list(): item level')
    head = ('/-\n  SlacModel.Generated.Grammar — GENERATED on every check run by /verif/tools/translate.py from the CURRENT text of\n'
            '  /repo/src/token.rs, operator.rs, scanner.rs, compiler.rs.  Do not edit.  SlacProps/C01Source.lean proves that the\n'
            '  hand-written model is these tables plugged into the Pratt / scanner skeleton.\n-/\n'
            'import SlacModel.Token\nset_option autoImplicit false\nnamespace Slac.Generated.Grammar\nvariable {N : Type}\n\n')
    return head + '\n'.join(out) + '\n\nend Slac.Generated.Grammar\n'

def main():
    a = sys.argv[1:]
    out = a[a.index('--out') + 1] if '--out' in a else '/verif/lean/SlacModel/Generated/Grammar.lean'
    src = a[a.index('--src') + 1] if '--src' in a else '/repo/src'
    try:
        text = translate(src)
    except Unrecognised as e:
        print(f'unrecognised: {e}'); sys.exit(3)
    except (OSError, IndexError, KeyError) as e:
        print(f'unrecognised: {type(e).__name__} {e}'); sys.exit(3)
    if not os.path.exists(out) or open(out).read() != text:
        open(out, 'w').write(text); print('written')
    else: print('unchanged')

if __name__ == '__main__':
    main()
