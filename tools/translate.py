#!/usr/bin/env python3
"""
Source-level translator for the lexical / grammar TABLES of SLAC.

Reads /repo/src/{token,operator,scanner,compiler}.rs as they are NOW and writes
/verif/lean/SlacModel/Generated/Grammar.lean: the same tables as Lean functions over the model's Token / Op types.
SlacProps/C01Source.lean then proves that the hand-written model (Token.prec, Parser.nextPrec, Token.binOp?,
Scanner.keywords, Scanner.nextToken, Parser.doPrefix / doInfix) IS these tables plugged into the Pratt skeleton, so a
change of a table in the source breaks a proof obligation directly (and not only a behavioural comparison).

Only a narrow, fixed subset of Rust is understood: `enum` variant lists and `match` expressions whose arms are
`Pat | Pat => expr,` with path patterns.  When the source no longer has that shape the translator reports
`unrecognised` (exit 3) and writes nothing: that is NOT a violation, the behavioural tie (exhaustive token-kind
sequences, all code points) still decides; the check records the fact in its evidence.
usage: translate.py [--outdir DIR] [--src DIR]      exit 0 = written/unchanged, 3 = some source shape not recognised
(prints one line per generated file: `<Name>: written|unchanged|unrecognised: why`)
"""
import re, sys, os

class Unrecognised(Exception): pass

def strip_comments(s):
    s = re.sub(r'//[^\n]*', '', s)
    return re.sub(r'/\*.*?\*/', '', s, flags=re.S)

def block_after(s, start):
    """text of the brace block that opens at or after index start (without the outer braces)"""
    i = s.find('{', start)
    if i < 0: raise Unrecognised('no block')
    depth = 0; j = i; in_chr = False
    while j < len(s):
        c = s[j]
        if c == "'" and j + 2 < len(s) and (s[j + 2] == "'" or (s[j + 1] == '\\' and s[j + 3] == "'")):   # char literal
            j += 4 if s[j + 1] == '\\' else 3; continue
        if c == '"':
            j += 1
            while s[j] != '"': j += 2 if s[j] == '\\' else 1
            j += 1; continue
        if c == '{': depth += 1
        elif c == '}':
            depth -= 1
            if depth == 0: return s[i + 1:j]
        j += 1
    raise Unrecognised('unbalanced block')

def fn_body(s, name):
    m = re.search(r'\bfn\s+' + re.escape(name) + r'\s*(<[^>]*>)?\s*\(', s)
    if not m: raise Unrecognised(f'fn {name} not found')
    return block_after(s, m.end())

def enum_variants(s, name):
    m = re.search(r'\benum\s+' + name + r'\b', s)
    if not m: raise Unrecognised(f'enum {name} not found')
    body = block_after(s, m.end())
    body = re.sub(r'\([^)]*\)', '', body)
    return [v.strip() for v in body.replace('\n', ' ').split(',') if v.strip()]

def split_top(s, sep):
    """split at separator characters that are outside brackets and literals"""
    out, depth, cur, j = [], 0, '', 0
    while j < len(s):
        c = s[j]
        if c == "'" and j + 2 < len(s) and (s[j + 2] == "'" or s[j + 1] == '\\'):
            k = j + (4 if s[j + 1] == '\\' else 3); cur += s[j:k]; j = k; continue
        if c == '"':
            k = j + 1
            while s[k] != '"': k += 2 if s[k] == '\\' else 1
            cur += s[j:k + 1]; j = k + 1; continue
        if c in '([{': depth += 1
        if c in ')]}': depth -= 1
        if c == sep and depth == 0 and not (sep == '|' and s[j:j + 2] == '||'):
            out.append(cur); cur = ''
        else: cur += c
        j += 1
    if cur.strip(): out.append(cur)
    return out

def split_arms(inner):
    """arms of a match body: `pat => expr,` or `pat => { block }` (no comma needed after a block)"""
    arms, j, n = [], 0, len(inner)
    while j < n:
        # pattern: up to the top-level `=>`
        depth, k = 0, j
        while k < n and not (depth == 0 and inner[k:k + 2] == '=>'):
            c = inner[k]
            if c == "'" and k + 2 < n and (inner[k + 2] == "'" or inner[k + 1] == '\\'):
                k += 4 if inner[k + 1] == '\\' else 3; continue
            if c == '"':
                k += 1
                while inner[k] != '"': k += 2 if inner[k] == '\\' else 1
            if c in '([{': depth += 1
            if c in ')]}': depth -= 1
            k += 1
        if k >= n:
            if inner[j:].strip(): raise Unrecognised(f'arm without =>: {inner[j:].strip()[:40]}')
            break
        pat = inner[j:k]; k += 2
        while k < n and inner[k].isspace(): k += 1
        if k < n and inner[k] == '{':
            blk = block_after(inner, k); expr = blk; k = inner.index('{', k) + len(blk) + 2
            while k < n and (inner[k].isspace() or inner[k] == ','): k += 1
        else:
            rest = split_top(inner[k:], ',')
            expr = rest[0] if rest else ''
            k += len(expr) + 1
        arms.append((pat, expr))
        j = k
    return arms

def match_arms(body, scrutinee_re=r'[^{]*'):
    m = re.search(r'\bmatch\s+' + scrutinee_re + r'\{', body)
    if not m: raise Unrecognised('no match expression')
    inner = block_after(body, m.end() - 1)
    return [([p.strip() for p in split_top(pat, '|')], ' '.join(expr.split())) for pat, expr in split_arms(inner)]

def lc(n): return n[0].lower() + n[1:]

def tok_pat(p):
    """Token::X / Token::Literal(v) / Token::Identifier(n) / _  ->  Lean pattern"""
    if p == '_': return '_'
    m = re.fullmatch(r'Token::(\w+)(\((.*)\))?', p)
    if not m: raise Unrecognised(f'token pattern {p}')
    return '.' + lc(m.group(1)) + (' _' if m.group(2) else '')

def translate(src):
    rd = lambda f: strip_comments(open(os.path.join(src, f)).read())
    token, operator, scanner, compiler = rd('token.rs'), rd('operator.rs'), rd('scanner.rs'), rd('compiler.rs')
    # drop the test modules (they contain functions with the same names)
    scanner = scanner.split('#[cfg(test)]')[0]; compiler = compiler.split('#[cfg(test)]')[0]
    out = []
    precs = enum_variants(token, 'Precedence')
    pidx = {p: i for i, p in enumerate(precs)}
    def prec(e):
        m = re.fullmatch(r'Precedence::(\w+)', e)
        if not m or m.group(1) not in pidx: raise Unrecognised(f'precedence {e}')
        return pidx[m.group(1)]
    # T1  impl From<&Token> for Precedence
    m = re.search(r'impl\s+From<&Token>\s+for\s+Precedence', token)
    if not m: raise Unrecognised('impl From<&Token> for Precedence')
    arms = match_arms(block_after(token, m.end()))
    out.append('/-- `impl From<&Token> for Precedence` (src/token.rs); precedences numbered by their position in `enum Precedence`: ' +
               ', '.join(f'{p}={i}' for p, i in pidx.items()) + ' -/')
    out.append('def tokenPrec : Token N → Nat')
    for pats, e in arms: out.append('  | ' + ' | '.join(tok_pat(p) for p in pats) + f' => {prec(e)}')
    # T2  Precedence::next
    arms = match_arms(fn_body(token, 'next'))
    out.append('/-- `Precedence::next` (src/token.rs) -/')
    out.append('def precNext : Nat → Nat')
    seen = set()
    for pats, e in arms:
        for p in pats: out.append(f'  | {prec(p)} => {prec(e)}'); seen.add(prec(p))
    if seen != set(range(len(precs))): raise Unrecognised('Precedence::next does not list every level')
    out.append('  | n => n')
    out.append(f'def precCount : Nat := {len(precs)}')
    # T3  impl TryFrom<&Token> for Operator
    ops = enum_variants(operator, 'Operator')
    arms = match_arms(fn_body(operator, 'try_from'))
    out.append('/-- `impl TryFrom<&Token> for Operator` (src/operator.rs) -/')
    out.append('def tokenOperator : Token N → Option Op')
    for pats, e in arms:
        mm = re.fullmatch(r'Ok\(Operator::(\w+)\)', e)
        if mm:
            if mm.group(1) not in ops: raise Unrecognised(f'operator {e}')
            rhs = 'some .' + lc(mm.group(1))
        elif e.startswith('Err('): rhs = 'none'
        else: raise Unrecognised(f'operator arm {e}')
        out.append('  | ' + ' | '.join(tok_pat(p) for p in pats) + f' => {rhs}')
    # T4  keyword table of Scanner::identifier
    ib = fn_body(scanner, 'identifier')
    sm = re.search(r'\bmatch\s+([^{]*)\{', ib)
    if not sm: raise Unrecognised('identifier(): no match')
    folding = ' '.join(sm.group(1).split())
    arms = match_arms(ib)
    out.append(f'/-- keyword table of `Scanner::identifier` (src/scanner.rs), matched on `{folding}` -/')
    out.append('def keywords (N : Type) : List (Str × Token N) :=')
    rows = []
    for pats, e in arms:
        for p in pats:
            if p == '_':
                if not re.fullmatch(r'Token::Identifier\(\w+\)', e): raise Unrecognised(f'identifier default arm {e}')
                continue
            mm = re.fullmatch(r'"([A-Za-z]+)"', p)
            if not mm: raise Unrecognised(f'keyword pattern {p}')
            word = '[' + ','.join(f"'{c}'" for c in mm.group(1)) + ']'
            if e == 'Token::Literal(Value::Boolean(true))': t = '.literal (.bool true)'
            elif e == 'Token::Literal(Value::Boolean(false))': t = '.literal (.bool false)'
            elif re.fullmatch(r'Token::\w+', e): t = '.' + lc(e[7:])
            else: raise Unrecognised(f'keyword token {e}')
            rows.append(f'({word}, {t})')
    out.append('  [ ' + ',\n    '.join(rows) + ' ]')
    fold = {'ident.to_lowercase().as_str()': 'lower', 'ident.to_uppercase().as_str()': 'upper', 'ident.as_str()': 'exact',
            'ident.to_ascii_lowercase().as_str()': 'asciiLower'}.get(folding)
    if fold is None: raise Unrecognised(f'keyword folding `{folding}`')
    out.append('inductive Folding | lower | upper | exact | asciiLower deriving DecidableEq')
    out.append(f'/-- how `identifier` folds the word before the table lookup -/\ndef keywordFolding : Folding := .{fold}')
    # T5  single-character tokens of next_token, two-character operators of greater / lesser
    arms = match_arms(fn_body(scanner, 'next_token'), r'next\s*')
    out.append('/-- the arms of `match next` in `Scanner::next_token` that produce a token directly (src/scanner.rs) -/')
    out.append('def charToken : Char → Option (Token N)')
    other = []
    for pats, e in arms:
        for p in pats:
            if p == '_': continue
            mm = re.fullmatch(r"'(\\?.)'", p)
            if not mm: raise Unrecognised(f'char pattern {p}')
            ch = mm.group(1)
            me = re.fullmatch(r'Ok\(Token::(\w+)\)', e)
            if me: out.append(f"  | '{ch}' => some .{lc(me.group(1))}")
            else: other.append((ch, e))
    out.append('  | _ => none')
    out.append('/-- the arms of `match next` that call a scanner method: (character, method) -/')
    meth = {'self.string()': 0, 'self.number()': 1, 'Ok(self.greater())': 2, 'Ok(self.lesser())': 3}
    rows = []
    for ch, e in other:
        if e not in meth: raise Unrecognised(f'next_token arm {e}')
        rows.append(f"('{ch}', {meth[e]})")
    out.append('def charMethod : List (Char × Nat) := [' + ', '.join(rows) + ']   -- 0 string, 1 number, 2 greater, 3 lesser')
    for fn in ('greater', 'lesser'):
        arms = match_arms(fn_body(scanner, fn))
        rows = []; dflt = None
        for pats, e in arms:
            for p in pats:
                if p == '_':
                    mm = re.fullmatch(r'Token::(\w+)', e)
                    if not mm: raise Unrecognised(f'{fn} default {e}')
                    dflt = '.' + lc(mm.group(1)); continue
                mp = re.fullmatch(r"Some\('(.)'\)", p); me = re.fullmatch(r'self\.encounter_double\(Token::(\w+)\)', e)
                if not mp or not me: raise Unrecognised(f'{fn} arm {p} => {e}')
                rows.append(f"('{mp.group(1)}', .{lc(me.group(1))})")
        if dflt is None: raise Unrecognised(f'{fn}: no default')
        out.append(f'/-- `Scanner::{fn}`: second character -> two-character token; otherwise the default -/')
        out.append(f'def {fn}Table : List (Char × Token N) × Token N := ([' + ', '.join(rows) + f'], {dflt})')
    # T6  do_prefix / do_infix dispatch
    kinds = {'self.grouping()': 2, 'self.array()': 3, 'self.unary()': 4}
    arms = match_arms(fn_body(compiler, 'do_prefix'))
    out.append('/-- `Compiler::do_prefix` (src/compiler.rs): 0 literal, 1 variable, 2 grouping, 3 array, 4 unary, 5 NoValidPrefixToken -/')
    out.append('def prefixKind : Token N → Nat')
    for pats, e in arms:
        if e.startswith('Ok(Expression::Literal'): k = 0
        elif e.startswith('Ok(Expression::Variable'): k = 1
        elif e in kinds: k = kinds[e]
        elif e.startswith('Err(Error::NoValidPrefixToken'): k = 5
        else: raise Unrecognised(f'do_prefix arm {e}')
        out.append('  | ' + ' | '.join(tok_pat(p) for p in pats) + f' => {k}')
    arms = match_arms(fn_body(compiler, 'do_infix'))
    out.append('/-- `Compiler::do_infix` (src/compiler.rs): 0 binary, 1 call, 2 NoValidInfixToken -/')
    out.append('def infixKind : Token N → Nat')
    for pats, e in arms:
        if e == 'self.binary(left)': k = 0
        elif e == 'self.call(left)': k = 1
        elif e.startswith('Err(Error::NoValidInfixToken'): k = 2
        else: raise Unrecognised(f'do_infix arm {e}')
        out.append('  | ' + ' | '.join(tok_pat(p) for p in pats) + f' => {k}')
    # T7  the levels the Pratt skeleton is called with
    eb = fn_body(compiler, 'expression')
    mm = re.search(r'self\.parse_precedence\(Precedence::(\w+)\)', eb)
    if not mm: raise Unrecognised('expression(): entry level')
    out.append(f'/-- `expression()` parses at this level -/\ndef entryLevel : Nat := {pidx[mm.group(1)]}')
    ub = fn_body(compiler, 'unary')
    mm = re.search(r'self\.parse_precedence\(Precedence::(\w+)\)', ub)
    if not mm: raise Unrecognised('unary(): operand level')
    out.append(f'/-- `unary()` parses its operand at this level -/\ndef unaryOperandLevel : Nat := {pidx[mm.group(1)]}')
    bb = ' '.join(fn_body(compiler, 'binary').split())
    if 'self.parse_precedence(Precedence::from(self.previous()?).next())' in bb: nxt = 'true'
    elif 'self.parse_precedence(Precedence::from(self.previous()?))' in bb: nxt = 'false'
    else: raise Unrecognised('binary(): operand level')
    out.append(f'/-- `binary()` parses its right operand at the NEXT level above the operator (left associativity) -/\ndef binaryOperandNext : Bool := {nxt}')
    pb = ' '.join(fn_body(compiler, 'parse_precedence').split())
    if re.search(r'\|t\| precedence <= Precedence::from\(t\)', pb): le = 'true'
    elif re.search(r'\|t\| precedence < Precedence::from\(t\)', pb): le = 'false'
    else: raise Unrecognised('parse_precedence(): loop condition')
    out.append(f'/-- the infix loop continues while `precedence <= Precedence::from(token)` (true) / `<` (false) -/\ndef loopAbsorbsEqual : Bool := {le}')
    for fn in ('grouping',):
        if 'self.expression()' not in fn_body(compiler, fn): raise Unrecognised(f'{fn}(): inner level')
    if 'self.expression()' not in fn_body(compiler, 'expression_list'): raise Unrecognised('expression_list(): item level')
    head = ('/-\n  SlacModel.Generated.Grammar — GENERATED on every check run by /verif/tools/translate.py from the CURRENT text of\n'
            '  /repo/src/token.rs, operator.rs, scanner.rs, compiler.rs.  Do not edit.  SlacProps/C01Source.lean proves that the\n'
            '  hand-written model is these tables plugged into the Pratt / scanner skeleton.\n-/\n'
            'import SlacModel.Token\nset_option autoImplicit false\nnamespace Slac.Generated.Grammar\nvariable {N : Type}\n\n')
    return head + '\n'.join(out) + '\n\nend Slac.Generated.Grammar\n'

# ---------------------------------------------------------------------------------------------------------------
# second part: operator semantics tables of src/value.rs and src/interpreter.rs -> Generated/Semantics.lean

KIND = {'Boolean': 'bool', 'String': 'str', 'Number': 'num', 'Array': 'arr'}

def val_pat(p, names):
    """(Value::K(x), Value::K(y)) / Value::K(x) / _  ->  Lean pattern; bound variables renamed a, b"""
    p = p.strip()
    if p == '_': return None
    parts = split_top(p[1:-1], ',') if p.startswith('(') else [p]
    out = []
    for i, q in enumerate(parts):
        q = q.strip()
        m = re.fullmatch(r'(?:Value|Self)::(\w+)\((\w+)\)', q)
        if not m or m.group(1) not in KIND: raise Unrecognised(f'value pattern {q}')
        out.append(f'.{KIND[m.group(1)]} {"ab"[i]}'); names[m.group(2)] = 'ab'[i]
    return out

def norm_expr(e, names):
    for k, v in names.items(): e = re.sub(r'\b' + re.escape(k) + r'\b', v, e)
    return ' '.join(e.split())

ARITH = {'+': 'add', '-': 'sub', '*': 'mul', '/': 'div', '%': 'rem'}
def val_expr(e):
    m = re.fullmatch(r'Ok\(Value::Number\(a ([-+*/%]) b\)\)', e)
    if m: return f'.ok (.num (NumOps.{ARITH[m.group(1)]} a b))'
    fixed = {'Ok(Value::String(a + &b))': '.ok (.str (a ++ b))', 'Ok(Value::Array([a, b].concat()))': '.ok (.arr (a ++ b))',
             'Ok(Value::Boolean(a ^ b))': '.ok (.bool (a != b))', 'Ok(Value::Number((a / b).trunc()))': '.ok (.num (NumOps.trunc (NumOps.div a b)))',
             'Ok(Value::Number(-a))': '.ok (.num (NumOps.neg a))'}
    if e in fixed: return fixed[e]
    m = re.fullmatch(r'Err\(Error::Invalid(Binary|Unary)Operator\(Operator::(\w+)\)\)', e)
    if m: return f'.error (.invalid{m.group(1)} .{lc(m.group(2))})'
    raise Unrecognised(f'value expression {e}')

def value_fn(value_src, header_re, fn, lean_name, binary, doc):
    m = re.search(header_re, value_src)
    if not m: raise Unrecognised(f'{header_re} not found')
    body = fn_body(value_src[m.end():], fn) if header_re else fn_body(value_src, fn)
    arms = match_arms(body)
    out = [f'/-- {doc} -/', f'def {lean_name} [NumOps N] : ' + ('Value N → Value N' if binary else 'Value N') + ' → Except Err (Value N)']
    for pats, e in arms:
        for p in pats:
            names = {}
            lp = val_pat(p, names)
            lhs = (', '.join(lp) if lp else ('_, _' if binary else '_'))
            out.append(f'  | {lhs} => {val_expr(norm_expr(e, names))}')
    return out

def translate_semantics(src):
    rd = lambda f: strip_comments(open(os.path.join(src, f)).read())
    value, interp = rd('value.rs').split('#[cfg(test)]')[0], rd('interpreter.rs').split('#[cfg(test)]')[0]
    out = []
    for trait, fn, lean, binary in (('Neg', 'neg', 'valueNeg', False), ('Add', 'add', 'valueAdd', True), ('Sub', 'sub', 'valueSub', True),
                                    ('Mul', 'mul', 'valueMul', True), ('Div', 'div', 'valueDiv', True), ('Rem', 'rem', 'valueRem', True),
                                    ('BitXor', 'bitxor', 'valueXor', True)):
        out += value_fn(value, r'impl\s+' + trait + r'\s+for\s+Value\b', fn, lean, binary, f'`impl {trait} for Value` (src/value.rs)')
    out += value_fn(value, r'impl\s+Value\s*\{', 'div_int', 'valueDivInt', True, '`Value::div_int` (src/value.rs)')
    nb = ' '.join(fn_body(value[re.search(r'impl\s+Not\s+for\s+Value\b', value).end():], 'not').split())
    if nb != 'Ok(Value::Boolean(!self.as_bool()))': raise Unrecognised(f'Not::not body {nb}')
    out += ['/-- `impl Not for Value`: `Ok(Value::Boolean(!self.as_bool()))` -/', 'def valueNot [NumOps N] (v : Value N) : Except Err (Value N) := .ok (.bool (!Value.asBool v))']
    # ordinal / empty
    arms = match_arms(fn_body(value, 'ordinal'))
    out += ['/-- `Value::ordinal` -/', 'def valueOrdinal : Value N → Nat']
    for pats, e in arms:
        for p in pats:
            m = re.fullmatch(r'Value::(\w+)\(_\)', p)
            if not m or not e.isdigit(): raise Unrecognised(f'ordinal arm {p} => {e}')
            out.append(f'  | .{KIND[m.group(1)]} _ => {e}')
    arms = match_arms(fn_body(value, 'empty'))
    emp = {'Value::Boolean(false)': '.bool false', 'Value::String(String::new())': '.str []', 'Value::Number(0.0)': '.num NumOps.zero', 'Value::Array(vec![])': '.arr []'}
    out += ['/-- `Value::empty` -/', 'def valueEmpty [NumOps N] : Value N → Value N']
    for pats, e in arms:
        for p in pats:
            m = re.fullmatch(r'Value::(\w+)\(_\)', p)
            if not m or e not in emp: raise Unrecognised(f'empty arm {p} => {e}')
            out.append(f'  | .{KIND[m.group(1)]} _ => {emp[e]}')
    # interpreter: unary dispatch
    ub = fn_body(interp, 'unary')
    if not re.search(r'let right = self\.expression\(right\)\?;', ub): raise Unrecognised('unary(): operand is not evaluated first with `?`')
    arms = match_arms(ub)
    un = {'-right': 'valueNeg v', '!right': 'valueNot v'}
    out += ['/-- the `match operator` of `TreeWalkingInterpreter::unary`, entered only after the operand evaluated to a value `v` -/',
            'def unaryDispatch [NumOps N] (op : Op) (v : Value N) : Except Err (Value N) :=', '  match op with']
    for pats, e in arms:
        for p in pats:
            if p == '_':
                if e != 'Err(Error::InvalidUnaryOperator(operator))': raise Unrecognised(f'unary default {e}')
                out.append('  | op => .error (.invalidUnary op)')
            else:
                m = re.fullmatch(r'Operator::(\w+)', p)
                if not m or e not in un: raise Unrecognised(f'unary arm {p} => {e}')
                out.append(f'  | .{lc(m.group(1))} => {un[e]}')
    # interpreter: strict binary dispatch (the inner `match (operator, right)`)
    bb = fn_body(interp, 'binary')
    mi = re.search(r'let right = self\.expression\(right\);\s*match\s*\(operator,\s*right\)\s*\{', bb)
    if not mi: raise Unrecognised('binary(): inner match (operator, right)')
    inner = block_after(bb, mi.end() - 1)
    strict = {'left + right': 'valueAdd l r', 'left - right': 'valueSub l r', 'left * right': 'valueMul l r', 'left / right': 'valueDiv l r',
              'left.div_int(right)': 'valueDivInt l r', 'left % right': 'valueRem l r', 'left ^ right': 'valueXor l r',
              'Ok(Value::Boolean(left > right))': '.ok (.bool (Value.gt l r))', 'Ok(Value::Boolean(left >= right))': '.ok (.bool (Value.ge l r))',
              'Ok(Value::Boolean(left < right))': '.ok (.bool (Value.lt l r))', 'Ok(Value::Boolean(left <= right))': '.ok (.bool (Value.le l r))',
              'Ok(Value::Boolean(left == right))': '.ok (.bool (Value.eq l r))', 'Ok(Value::Boolean(left != right))': '.ok (.bool (!Value.eq l r))'}
    out += ['/-- the arms `(Operator::X, Ok(right)) => …` of the inner match of `TreeWalkingInterpreter::binary`: both operands are values -/',
            'def strictDispatch [NumOps N] (op : Op) (l r : Value N) : Except Err (Value N) :=', '  match op with']
    undef_right = {}
    seen_default = False
    for pat, e in split_arms(inner):
        pat = ' '.join(pat.split()); e = ' '.join(e.split())
        m = re.fullmatch(r'\(Operator::(\w+), Ok\(right\)\)', pat)
        if m:
            if e not in strict: raise Unrecognised(f'strict arm {e}')
            out.append(f'  | .{lc(m.group(1))} => {strict[e]}'); continue
        m = re.fullmatch(r'\(Operator::(\w+), Err\(Error::UndefinedVariable\(_\)\)\)', pat)
        if m: undef_right[m.group(1)] = e; continue
        if pat == '(_, Err(right))' and e == 'Err(right)': continue
        if pat == '(operator, _)' and e == 'Err(Error::InvalidBinaryOperator(operator))': seen_default = True; continue
        raise Unrecognised(f'binary inner arm {pat} => {e}')
    if not seen_default: raise Unrecognised('binary(): no InvalidBinaryOperator default')
    out.append('  | op => .error (.invalidBinary op)')
    ur = {'Ok(Value::Boolean(left.is_empty()))': '.ok (.bool (Value.isEmpty l))', 'Ok(Value::Boolean(!left.is_empty()))': '.ok (.bool (!Value.isEmpty l))'}
    out += ['/-- the arms `(Operator::X, Err(UndefinedVariable))` of the inner match: left is a value, right is undefined -/',
            'def undefinedRight [NumOps N] (op : Op) (l : Value N) : Option (Except Err (Value N)) :=', '  match op with']
    for k, e in undef_right.items():
        if e not in ur: raise Unrecognised(f'undefined-right arm {e}')
        out.append(f'  | .{lc(k)} => some ({ur[e]})')
    out.append('  | _ => none')
    # interpreter: the OUTER match of binary (short circuit, undefined operands, error propagation), in source order
    mo = re.search(r'let left = self\.expression\(left\);\s*match\s*\(operator,\s*left\)\s*\{', bb)
    if not mo: raise Unrecognised('binary(): outer match (operator, left)')
    outer = block_after(bb, mo.end() - 1)
    def und(neg, both):
        t = 'match self.expression(right) { Ok(right) => Ok(Value::Boolean(%sright.is_empty())), Err(Error::UndefinedVariable(_)) => Ok(Value::Boolean(%s)), Err(right) => Err(right), }'
        return t % ('!' if neg else '', 'true' if both else 'false')
    acts = {'self.boolean::<true>(&left, right)': '.boolean true', 'self.boolean::<false>(&left, right)': '.boolean false',
            'self.boolean::<true>(&Value::Boolean(false), right)': '.booleanOn true (.bool false)', 'self.boolean::<false>(&Value::Boolean(false), right)': '.booleanOn false (.bool false)',
            'self.boolean::<true>(&Value::Boolean(true), right)': '.booleanOn true (.bool true)', 'self.boolean::<false>(&Value::Boolean(true), right)': '.booleanOn false (.bool true)',
            'Ok(Value::Boolean(false))': '.const false', 'Ok(Value::Boolean(true))': '.const true', 'Err(left)': '.propagate'}
    for neg in (False, True):
        for both in (False, True): acts[und(neg, both)] = f'.undefLeft {str(neg).lower()} {str(both).lower()}'
    out += ['/-- what an arm of the OUTER `match (operator, left)` of `binary` does -/',
            'inductive Outer (N : Type) | boolean (full : Bool) | booleanOn (full : Bool) (v : Value N) | const (b : Bool) | strict | undefLeft (negate bothUndefined : Bool) | propagate',
            '/-- the outer match, arm by arm in source order; second argument: 0 = left is a value, 1 = left is undefined, 2 = left is another error -/',
            'def outerDispatch : Op → Nat → Outer N']
    for pat, e in split_arms(outer):
        pat = ' '.join(pat.split()); e = ' '.join(e.split())
        m = re.fullmatch(r'\((Operator::(\w+)|_), (Ok\(left\)|Err\(Error::UndefinedVariable\(_\)\)|Err\(left\))\)', pat)
        if not m: raise Unrecognised(f'binary outer pattern {pat}')
        lop = '.' + lc(m.group(2)) if m.group(2) else '_'
        lk = {'Ok(left)': '0', 'Err(Error::UndefinedVariable(_))': '1', 'Err(left)': '_'}[m.group(3)]
        if 'match (operator, right)' in e and e.startswith('let right = self.expression(right);'): act = '.strict'
        elif e in acts: act = acts[e]
        else: raise Unrecognised(f'binary outer arm {pat} => {e[:80]}')
        if act == '.propagate' and lk == '0': raise Unrecognised('propagate on a value')
        out.append(f'  | {lop}, {lk} => {act}')
    if not out[-1].startswith('  | _, _ =>'): out.append('  | _, _ => .propagate')
    bo = ' '.join(fn_body(interp, 'boolean').split())
    expect = ('let left = left.as_bool(); if left == FULL_EVAL { match self.expression(right) { Ok(right) => Ok(Value::Boolean(right.as_bool())), '
              'Err(Error::UndefinedVariable(_)) => Ok(Value::Boolean(false)), Err(error) => Err(error), } } else { Ok(Value::Boolean(left)) }')
    if bo != expect: raise Unrecognised('boolean::<FULL_EVAL>() body differs from the recognised text')
    out += ['/-- `boolean::<FULL_EVAL>` has the recognised body: evaluate the right operand iff `left.as_bool() == FULL_EVAL`; a value gives its',
            '    `as_bool`, an undefined variable gives `false`, another error propagates; otherwise the result is `left.as_bool()` -/', 'def booleanBodyRecognised : Bool := true']
    # ternary
    tb = fn_body(interp, 'ternary')
    arms = match_arms(tb)
    ops = [p for pats, e in arms for p in pats if p != '_']
    if len(ops) != 1 or not re.fullmatch(r'Operator::(\w+)', ops[0]): raise Unrecognised('ternary(): operator arms')
    out += ['/-- the only operator `TreeWalkingInterpreter::ternary` accepts -/', f'def ternaryOperator : Op := .{lc(ops[0][10:])}']
    head = ('/-\n  SlacModel.Generated.Semantics — GENERATED on every check run by /verif/tools/translate.py from the CURRENT text of\n'
            '  /repo/src/value.rs and interpreter.rs (operator arms only).  Do not edit.  SlacProps/C03Source.lean proves that the\n'
            '  hand-written model (Value.add, Value.arith, Value.xor, Value.neg, binVal, unModel, …) is these tables.\n-/\n'
            'import SlacModel.Value\nset_option autoImplicit false\nnamespace Slac.Generated.Semantics\nvariable {N : Type}\n\n')
    return head + '\n'.join(out) + '\n\nend Slac.Generated.Semantics\n'

def main():
    a = sys.argv[1:]
    outdir = a[a.index('--outdir') + 1] if '--outdir' in a else '/verif/lean/SlacModel/Generated'
    src = a[a.index('--src') + 1] if '--src' in a else '/repo/src'
    rc = 0
    for name, fn in (('Grammar', translate), ('Semantics', translate_semantics)):
        out = os.path.join(outdir, name + '.lean')
        try:
            text = fn(src)
        except Unrecognised as e:
            print(f'{name}: unrecognised: {e}'); rc = 3; continue
        except (OSError, IndexError, KeyError, AttributeError) as e:
            print(f'{name}: unrecognised: {type(e).__name__} {e}'); rc = 3; continue
        if not os.path.exists(out) or open(out).read() != text:
            open(out, 'w').write(text); print(f'{name}: written')
        else: print(f'{name}: unchanged')
    sys.exit(rc)

if __name__ == '__main__':
    main()
