"""Views (which part of an answer line a property compares), case classification for the evidence,
known-finding predicates and Rust/Python-side law checkers."""
import re, sys
sys.setrecursionlimit(100000)   # protocol trees nest hundreds of levels (spine / chain streams)

def v_full(s): return s.strip()
def v_result(s): return s.split(' ; ')[0].strip()          # value / error, not the trace
def v_class(s):                                           # ok / err / crash class only
    t = s.strip().split(' ')[0]
    return t if t in ('ok', 'err') else s.strip()
def fields(s):
    """`a ; b ; key x ; key y` -> dict: positional parts as 0,1,.. and keyword parts by their first word"""
    d = {}
    for i, part in enumerate(x.strip() for x in s.split(' ; ')):
        d[i] = part
        w = part.split(' ', 1)
        if w[0] in ('pre', 'post', 'chk', 'fold', 'idem', 'nodes', 'if3', 'pur', 'rp', 'exec', 'exec2', 'opt', 'bool'): d[w[0]] = w[1] if len(w) > 1 else ''
    return d
def pick(*keys):
    def view(s):
        d = fields(s)
        return ' ; '.join(str(d.get(k, '')) for k in keys)
    return view
def v_kind(s):                                            # ok / err + error variant (payload-free)
    t = s.strip().split(' ')
    return ' '.join(t[:2]) if t[0] == 'err' else t[0]
def v_okfull(s):
    s = s.strip()
    return s if s.startswith('ok') or s in ('same', 'reject') or s.startswith('differs') else s.split(' ')[0]
def v_jsonclass(s):
    return 'ok' if s.strip().startswith('{') else 'err'
def v_first(s):
    return v_class(s.split(' ; ')[0])
def v_tmrange(s):
    return ' '.join(s.strip().split(' ')[:4])
VIEWS = {'tmrange': v_tmrange, 'jsonclass': v_jsonclass, 'first': v_first, 'okfull': v_okfull, 'full': v_full, 'result': v_result, 'class': v_class, 'kind': v_kind,
         'opt_c05': pick(0, 'pre', 'post'), 'opt_c06': pick(0, 1, 'fold', 'idem', 'nodes', 'pur'), 'opt_c10': pick('chk'),
         'chk': pick(0), 'chk_exec': pick(0, 1), 'script_exec': pick(0, 'exec'), 'script_opt': pick(0, 'opt', 'exec', 'exec2'), 'script_chk': pick(0, 'chk', 'bool', 'exec'), 'chkbool': pick(0, 1, 'rp')}

def classify(stream, line, exp):
    """coarse class of a case, for the input-distribution table in the evidence"""
    t = exp.split(' ')
    if stream.startswith('eval'):
        head = ' '.join(t[:2]) if t[0] == 'err' else 'ok ' + (t[1][0] if len(t) > 1 else '?')
        return head + (' traced' if not exp.rstrip().endswith('; -') else '')
    if stream == 'num':
        return line.split(' ')[1]
    if stream.startswith('opt'):
        d = fields(exp)
        return f"{d[0].split(' ')[0]} traced={d.get(1, '-') != '-'} if3={d.get('if3')} resolved={d.get('chk', '? ?')[0]} folded={d.get('nodes', '0 0').split(' ')[0] != d.get('nodes', '0 0').split(' ')[-1]}"
    if stream == 'script':
        d = fields(exp)
        return 'compile ' + exp.split(' ')[0] + ' ' + ' '.join(d.get('exec', '').split(' ')[:2])
    if stream.startswith('chk'):
        d = fields(exp)
        return ' '.join(d[0].split(' ')[:2]) + ' / ' + ' '.join(d.get(1, '').split(' ')[:2])
    if stream.startswith('call') or stream.startswith('rep'):
        try: name = bytes.fromhex(line.split(' ')[3 if stream.startswith('rep') else 2]).decode()
        except Exception: name = '?'
        return name + ' ' + ' '.join(exp.split(' ')[:2])[:40]
    if stream in ('scan', 'scanfrag', 'compile', 'parse', 'parsekinds'):
        return ' '.join(exp.split(' ')[:2]) if exp.startswith('err') else 'ok'
    if 'json' in stream:
        return ' '.join(x.strip() for x in exp.split(' ; ')[1:]) + (' nonfinite' if has_nonfinite_literal(line) else '')
    if stream == 'cmp':
        return 'cmp ' + t[0]
    return t[0]

def nontrivial(stream, line, exp):
    if stream.startswith('eval'):
        # a tree with at least one operator or call node
        return bool(re.search(r' (I|U|T|C|R) ', line))
    return True

def known_finding(pid, stream, line, exp, spec, known_ids):
    """id of the listed known finding this violating input belongs to, or None"""
    for kid, k in known_ids.items():
        f = KNOWN_PREDICATES.get(kid)
        if f and f(stream, line, exp, spec): return kid
    return None

def call_name(line):
    t = line.split(' ')
    try: return bytes.fromhex(t[2]).decode() if t[0] == 'call' else ''
    except Exception: return ''

def has_nonfinite_literal(line):
    for m in re.finditer(r'\bN([0-9a-f]{16})\b', line):
        if (int(m.group(1), 16) >> 52) & 0x7ff == 0x7ff: return True
    return False

def json_depth(line):
    """nesting depth (objects + arrays) of the JSON that serde writes for the tree on a `json` protocol line"""
    import shrink
    t = line.split(' ')
    def vdepth(tokens, i):
        tok = tokens[i]
        if tok[0] == 'A':
            n = int(tok[1:]); j = i + 1; d = 0
            for _ in range(n):
                dd, j = vdepth(tokens, j); d = max(d, dd)
            return 1 + d, j
        return 0, i + 1
    def depth(node):
        kind, head, cs = node
        if kind == 'L':
            d, _ = vdepth(head, 1); return 1 + d
        if kind == 'V': return 1
        if kind in ('R', 'C'): return 2 + max([depth(c) for c in cs] or [0])
        return 1 + max(depth(c) for c in cs)
    try:
        e, _ = shrink.parse_expr(t, 1)
        return depth(e)
    except Exception:
        return 0

def law_json_same(lines, exp):
    """C12 as stated: both round-trip routes reproduce the tree"""
    for k, (line, e) in enumerate(zip(lines, exp)):
        if not line.startswith('json '): continue
        parts = [x.strip() for x in e.split(' ; ')]
        if len(parts) < 3 or parts[1] != 'same' or parts[2] != 'same':
            yield (k, line, e, 'round trip through the JSON value and through JSON text yields the identical tree (same ; same)')

def law_c05(lines, exp):
    """C05 as stated: resolved tree + value before => identical value after (also for the partially rewritten tree);
       no three-argument if_then => identical result, value or error"""
    for k, (line, e) in enumerate(zip(lines, exp)):
        if not line.startswith('opt '): continue
        d = fields(e)
        if 'pre' not in d: continue
        if d['chk'].split(' ')[0] == 'T' and d['pre'].startswith('ok') and d['post'] != d['pre']:
            yield (k, line, e, 'resolved tree: value after optimize identical to value before: post ' + d['pre'])
        elif d['if3'] == 'F' and d['post'] != d['pre']:
            yield (k, line, e, 'no 3-argument if_then: result after optimize identical to result before: post ' + d['pre'])

def law_c06(lines, exp):
    for k, (line, e) in enumerate(zip(lines, exp)):
        if not line.startswith('opt '): continue
        d = fields(e)
        if 'pur' not in d:
            continue
        n1, n0 = (int(x) for x in d['nodes'].split(' '))
        if d['pur'] != 'T': yield (k, line, e, 'optimize only calls pure functions with literal arguments and reads no variable (pur T)')
        elif n1 > n0: yield (k, line, e, 'result has no more nodes than the input')
        elif d[0].startswith('ok') and d['fold'] != 'F': yield (k, line, e, 'successful result contains no constant-foldable node (fold F)')
        elif d[0].startswith('ok') and d['idem'] != 'T': yield (k, line, e, 'optimizing the result again changes nothing (idem T)')

def law_c10_opt(lines, exp):
    for k, (line, e) in enumerate(zip(lines, exp)):
        if not line.startswith('opt '): continue
        d = fields(e)
        if d.get('chk', '').startswith('T') and d['chk'] != 'T T':
            yield (k, line, e, 'a tree accepted by check_variables_and_functions is still accepted after optimize (chk T T)')

def law_c10(lines, exp):
    for k, (line, e) in enumerate(zip(lines, exp)):
        if not line.startswith('chkvf '): continue
        d = fields(e)
        if d[0] == 'ok' and (d[1].startswith('err UndefinedVariable') or ' FunctionNotFound ' in d[1] + ' '):
            yield (k, line, e, 'accepted tree never fails with UndefinedVariable / FunctionNotFound')

def law_c11(lines, exp):
    for k, (line, e) in enumerate(zip(lines, exp)):
        if not line.startswith('chkbool '): continue
        d = fields(e)
        if d[0] == 'ok' and d.get('rp') == 'T' and d[1].startswith('ok ') and not d[1].startswith('ok B'):
            yield (k, line, e, 'accepted tree whose result-position variables/calls are Boolean evaluates to a Boolean')

def law_expect(word):
    def law(lines, exp):
        for k, (line, e) in enumerate(zip(lines, exp)):
            if e.strip() != word and not (word == 'same' and e.strip() == 'reject'):
                yield (k, line, e, word)
    return law

def law_ok(lines, exp):
    """law streams answer `ok …` when every law of the property held on that input"""
    for k, (line, e) in enumerate(zip(lines, exp)):
        if not e.startswith('ok'):
            yield (k, line, e, 'ok (all ordering laws hold)')

def law_no_crash(lines, exp):
    for k, (line, e) in enumerate(zip(lines, exp)):
        if e.strip() in ('panic', 'crash', 'timeout', 'missing'):
            yield (k, line, e, 'a value or an error value (no panic, no crash, no hang)')

KNOWN_PREDICATES = {
    # D3: Value::cmp is not transitive when numeric strings meet numbers, and NaN equals every number
    'C13-unsafe-collection': lambda stream, line, exp, spec: (stream in ('ord', 'sortlaw') and exp.strip().endswith(' unsafe')),
    # D3b: slice::sort detects the inconsistent order and panics
    # chrono's i32 overflow in from_isoywd_opt (overflow-checked builds only): %G format and the year at an i32 limit
    'C09-chrono-isoweek-overflow': lambda stream, line, exp, spec: (exp.strip() in ('panic', 'crash') and call_name(line) in ('string_to_date', 'string_to_datetime')
                                                                   and '2547' in line and any(h in line for h in ('2d32313437343833363438', '32313437343833363437'))),
    'C09-sort-unsafe-collection': lambda stream, line, exp, spec: (stream.startswith('call') and line.endswith(' #unsafe') and exp.strip() in ('panic', 'crash')),
    # D9: JSON has no representation for NaN / infinities; serde_json writes null, the value visitor rejects null
    'C12-nonfinite-literal': lambda stream, line, exp, spec: 'json' in stream and has_nonfinite_literal(line),
    # serde_json's default recursion limit: text deeper than 127 nested containers cannot be parsed back
    'C12-text-depth-limit': lambda stream, line, exp, spec: ('json' in stream and [x.strip() for x in exp.split(' ; ')][1:3] == ['same', 'err']
                                                              and json_depth(line) >= 128),
}
def law_stable(lines, exp):
    for k, (line, e) in enumerate(zip(lines, exp)):
        if e.startswith('unstable'):
            yield (k, line, e, 'identical result every time (stable …)')

def law_c10_dcall(lines, exp):
    for k, (line, e) in enumerate(zip(lines, exp)):
        if e.startswith('err WrongParameterCount'):
            yield (k, line, e, 'a call within the registered arity with arguments of the documented kinds never answers WrongParameterCount')

def law_eval_side(lines, exp):
    """laws the harness evaluates on the crate next to an `eval` answer: every call event reaches its native function exactly once (NATIVE),
    and an environment that was read before being rebound answers like one that was not (HISTORY)"""
    for k, (line, e) in enumerate(zip(lines, exp)):
        for tag, want in ((' ; NATIVE ', 'every call() event enters its native function exactly once'), (' ; HISTORY ', 'the bindings in force are the latest ones, under every spelling, whatever was looked up before')):
            if tag in e: yield (k, line, e[e.index(tag) + 3:][:300], want)

def law_tmrange(lines, exp):
    for k, (line, e) in enumerate(zip(lines, exp)):
        if not e.startswith('viol 0 '):
            first = ''
            if ' first ' in e:
                try: first = bytes.fromhex(e.split(' first ')[1].strip()).decode()
                except Exception: pass
            yield (k, line, e + (' (' + first + ')' if first else ''), 'viol 0: every date / millisecond / combination of the range encodes exactly and decodes to its components')

def law_nd(lines, exp):
    for k, (line, e) in enumerate(zip(lines, exp)):
        if e.strip() != 'member':
            yield (k, line, e, 'member: every answer of random / choice is one the relational specification allows')

def law_scanrange(lines, exp):
    for k, (line, e) in enumerate(zip(lines, exp)):
        if not e.startswith('viol 0 '):
            first = ''
            if ' first ' in e:
                try: first = bytes.fromhex(e.split(' first ')[1].strip()).decode()
                except Exception: pass
            yield (k, line, e + (' (' + first + ')' if first else ''), 'viol 0: an identifier keeps its exact spelling; a word one letter away from a keyword is not that keyword')

def law_script_c05(lines, exp):
    # validated script (all names resolve): a value before optimize is the identical value after
    for k, (line, e) in enumerate(zip(lines, exp)):
        d = fields(e)
        if d.get('chk') == 'ok' and d.get('exec', '').startswith('ok') and d.get('exec2') != d.get('exec'):
            yield (k, line, e, 'validated script: value after optimize identical to value before: exec2 ' + d['exec'])

def law_script_c10(lines, exp):
    for k, (line, e) in enumerate(zip(lines, exp)):
        d = fields(e)
        x = d.get('exec', '')
        if d.get('chk') == 'ok' and (x.startswith('err UndefinedVariable') or ' FunctionNotFound ' in x + ' ' or ' WrongParameterCount ' in x + ' ') and False:
            pass
        if d.get('chk') == 'ok' and (x.startswith('err UndefinedVariable') or ' FunctionNotFound ' in x + ' '):
            yield (k, line, e, 'validated script never fails with UndefinedVariable / FunctionNotFound')

def law_script_c11(lines, exp):
    for k, (line, e) in enumerate(zip(lines, exp)):
        d = fields(e)
        x = d.get('exec', '')
        # no variable/call in result position can be told from the protocol line only for plain operator roots; the chkbool stream has the precise proviso
    return []

LAWS = {'eval_side': law_eval_side, 'nd': law_nd, 'scanrange': law_scanrange, 'script_c05': law_script_c05, 'script_c10': law_script_c10, 'tmrange': law_tmrange, 'c10_dcall': law_c10_dcall, 'stable': law_stable, 'json_same': law_json_same, 'c05': law_c05, 'c06': law_c06, 'c10': law_c10, 'c10_opt': law_c10_opt, 'c11': law_c11,
        'same': law_expect('same'), 'ok': law_ok, 'no_crash': law_no_crash}
