"""Views (which part of an answer line a property compares), case classification for the evidence,
known-finding predicates and Rust/Python-side law checkers."""
import re

def v_full(s): return s.strip()
def v_result(s): return s.split(' ; ')[0].strip()          # value / error, not the trace
def v_class(s):                                           # ok / err / crash class only
    t = s.strip().split(' ')[0]
    return t if t in ('ok', 'err') else s.strip()
VIEWS = {'full': v_full, 'result': v_result, 'class': v_class}

def classify(stream, line, exp):
    """coarse class of a case, for the input-distribution table in the evidence"""
    t = exp.split(' ')
    if stream.startswith('eval'):
        head = ' '.join(t[:2]) if t[0] == 'err' else 'ok ' + (t[1][0] if len(t) > 1 else '?')
        return head + (' traced' if not exp.rstrip().endswith('; -') else '')
    if stream == 'num':
        return line.split(' ')[1]
    if stream == 'json':
        return ' '.join(x.strip() for x in exp.split(' ; ')[1:]) + (' nonfinite' if has_nonfinite_literal(line) else '')
    if stream == 'cmp':
        return 'cmp ' + t[0]
    return t[0]

def nontrivial(stream, line, exp):
    if stream.startswith('eval'):
        # a tree with at least one operator or call node
        return bool(re.search(r' (I|U|T|C|R) ', line))
    return True

def known_finding(pid, stream, line, exp, spec, known_ids):
    """id of the listed known finding this violating input belongs to, or None"""
    for kid, k in known_ids.items():
        f = KNOWN_PREDICATES.get(kid)
        if f and f(stream, line, exp, spec): return kid
    return None

def has_nonfinite_literal(line):
    for m in re.finditer(r'\bN([0-9a-f]{16})\b', line):
        if (int(m.group(1), 16) >> 52) & 0x7ff == 0x7ff: return True
    return False

def law_json_same(lines, exp):
    """C12 as stated: both round-trip routes reproduce the tree"""
    for k, (line, e) in enumerate(zip(lines, exp)):
        if not line.startswith('json '): continue
        parts = [x.strip() for x in e.split(' ; ')]
        if len(parts) != 3 or parts[1] != 'same' or parts[2] != 'same':
            yield (k, line, e, 'round trip through the JSON value and through JSON text yields the identical tree (same ; same)')

KNOWN_PREDICATES = {
    # D9: JSON has no representation for NaN / infinities; serde_json writes null, the value visitor rejects null
    'C12-nonfinite-literal': lambda stream, line, exp, spec: stream.startswith('json') and has_nonfinite_literal(line),
}
LAWS = {'json_same': law_json_same}
