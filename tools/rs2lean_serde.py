#!/usr/bin/env python3
"""
rs2lean_serde.py — the JSON shape of an expression tree, re-derived on every check run from the CURRENT text of src/ast.rs, src/operator.rs and
src/value.rs.  Output: SlacModel/Generated/SrcSerde.lean.  SlacProps/C12Source.lean proves the serialisation half of SlacModel/Json.lean
(`opName`, `ofValue`, `ofExpr`), about which `json_roundtrip` is stated, equal to the generated functions.

How the source is read (trusted):
  * `#[derive(Serialize)]` with `serde(tag = "T", rename_all = "camelCase")` on `enum Expression` is serde's INTERNALLY TAGGED representation: an object
    whose first entry is `"T": <variant name in camelCase>` followed by the variant's fields in DECLARATION order under their own names
    (`rename_all` on an enum renames variants, not fields); `serde(rename_all = "camelCase")` on the field-less `enum Operator` makes every operator the
    string of its variant name in camelCase; camelCase of an UpperCamel name lowers its first letter;
  * a field of type `Box<Expression>` is the nested object, `Vec<Expression>` an array of them, `Operator` its string, `String` a string, `Value` what
    `impl Serialize for Value` writes;
  * `impl Serialize for Value`: `serialize_bool` / `serialize_str` / `serialize_f64` write a JSON bool / string / number — serde_json writes `null` for a
    non-finite f64 —, `serialize_seq` + `serialize_element` for every element + `end` write an array.
  * `impl Visitor for ValueVisitor` (reached through `deserialize_any`): the JSON kinds that have a `visit_` method are accepted as that method says
    (`v as f64` on an integer token = `jn.ofInt`), `visit_seq` collects `next_element()?` until `None`; every other kind is refused by serde's default method.
Anything else (other attributes, tuple variants, other field types, another shape of the Serialize impl) raises `Unrecognised`.
"""
import os, sys, re
sys.path.insert(0, os.path.dirname(os.path.abspath(__file__)))
from rsparse import Unrecognised, find_fn, strip_tests
from rs2lean import CTORS, lc

def chars(s): return '[' + ', '.join(f"'{c}'" for c in s) + ']'

def enum_with_attrs(src, name):
    m = re.search(r'((?:#\[[^\]]*\]\s*|#\[cfg_attr\((?:[^()]|\([^()]*\))*\)\]\s*|///[^\n]*\n\s*)*)pub\s+enum\s+' + name + r'\s*\{(.*?)\n\}', strip_tests(src), re.S)
    if not m: raise Unrecognised(f'enum {name}')
    attrs = m.group(1); body = re.sub(r'//[^\n]*', '', m.group(2))
    sm = re.search(r'serde\s*\(([^)]*)\)', attrs)
    if not sm or 'derive' not in attrs or 'Serialize' not in attrs: raise Unrecognised(f'serde attributes of {name}')
    opts = dict((k.strip(), v.strip().strip('"')) for k, v in (kv.split('=') for kv in sm.group(1).split(',') if kv.strip()))
    return opts, body

def gen_serde(srcdir):
    ast = open(os.path.join(srcdir, 'ast.rs')).read(); opr = open(os.path.join(srcdir, 'operator.rs')).read(); val = open(os.path.join(srcdir, 'value.rs')).read()
    # ---- Operator
    oopts, obody = enum_with_attrs(opr, 'Operator')
    if oopts != {'rename_all': 'camelCase'}: raise Unrecognised(f'serde options of Operator: {oopts}')
    ops = [v.strip() for v in obody.split(',') if v.strip()]
    if not all(re.fullmatch(r'[A-Z]\w*', v) for v in ops): raise Unrecognised('variants of Operator')
    for v in ops:
        if ('Operator', v) not in CTORS: raise Unrecognised(f'operator {v}')
    # ---- Expression
    eopts, ebody = enum_with_attrs(ast, 'Expression')
    if set(eopts) != {'tag', 'rename_all'} or eopts['rename_all'] != 'camelCase': raise Unrecognised(f'serde options of Expression: {eopts}')
    variants = []
    for m in re.finditer(r'(\w+)\s*\{([^{}]*)\}', ebody):
        fields = [(f.split(':')[0].strip(), f.split(':', 1)[1].strip()) for f in m.group(2).split(',') if f.strip()]
        variants.append((m.group(1), fields))
    if re.sub(r'(\w+)\s*\{[^{}]*\}\s*,?', '', re.sub(r'///[^\n]*', '', ebody)).strip(): raise Unrecognised('a variant of Expression that is not a struct variant')
    FIELD = {'Box<Expression>': lambda f: f'ofExpr jn {f}', 'Vec<Expression>': lambda f: f'.arr (ofExprs jn {f})', 'Operator': lambda f: f'.str (opName {f})',
             'String': lambda f: f'.str {f}', 'Value': lambda f: f'ofValue jn {f}'}
    arms = []
    for v, fields in variants:
        key = ('Expression', v)
        if key not in CTORS: raise Unrecognised(f'variant {v}')
        ctor, order, _ = CTORS[key]
        if sorted(order) != sorted(f for f, _ in fields): raise Unrecognised(f'fields of {v}')
        entries = [f"({chars(eopts['tag'])}, .str {chars(lc(v))})"]
        for f, ty in fields:
            ty = ty.replace(' ', '')
            if ty not in FIELD: raise Unrecognised(f'field type {ty}')
            entries.append(f'({chars(f)}, {FIELD[ty](f)})')
        arms.append(f'  | {ctor} {" ".join(order)} => .obj [' + ', '.join(entries) + ']')
    # ---- impl Serialize for Value
    f = find_fn(strip_tests(val), 'serialize', after='impl Serialize for Value')
    body = f['body']
    if body[1] or body[2] is None or body[2][0] != 'match' or body[2][1] != ('path', ['self']): raise Unrecognised('shape of Value::serialize')
    varms = {}
    for pats, guard, b in body[2][2]:
        if guard is not None or len(pats) != 1 or pats[0][0] != 'ptuplestruct' or pats[0][1][0] != 'Value' or len(pats[0][2]) != 1 or pats[0][2][0][0] != 'pbind': raise Unrecognised('arm of Value::serialize')
        kind, var = pats[0][1][1], pats[0][2][0][1]
        def is_call(e, meth, arg):
            while e[0] == 'unop': e = e[2]
            return e[0] == 'mcall' and e[1] == ('path', ['serializer']) and e[2] == meth and len(e[4]) == 1 and (e[4][0] == ('path', [arg]) or (e[4][0][0] == 'unop' and e[4][0][2] == ('path', [arg])))
        if kind == 'Boolean' and is_call(b, 'serialize_bool', var): varms[kind] = f'  | .bool {var} => .bool {var}'
        elif kind == 'String' and is_call(b, 'serialize_str', var): varms[kind] = f'  | .str {var} => .str {var}'
        elif kind == 'Number' and is_call(b, 'serialize_f64', var): varms[kind] = f'  | .num {var} => if jn.isFinite {var} then .num {var} else .null'
        elif kind == 'Array' and b[0] == 'block':
            st, tail = b[1], b[2]
            ok = (len(st) == 2 and st[0][0] == 'let' and st[0][1][0] == 'pbind' and st[0][2][0] == 'try' and st[0][2][1][0] == 'mcall' and st[0][2][1][2] == 'serialize_seq'
                  and st[1][0] == 'expr' and st[1][1][0] == 'for' and st[1][1][1][0] == 'pbind' and st[1][1][2] == ('path', [var])
                  and tail == ('mcall', ('path', [st[0][1][1]]), 'end', None, []))
            if ok:
                fb = st[1][1][3]; inner = fb[1][0][1] if len(fb[1]) == 1 and fb[2] is None else fb[2]
                ok = inner == ('try', ('mcall', ('path', [st[0][1][1]]), 'serialize_element', None, [('path', [st[1][1][1][1]])]))
            if not ok: raise Unrecognised('Array arm of Value::serialize')
            varms[kind] = f'  | .arr {var} => .arr (ofValues jn {var})'
        else: raise Unrecognised(f'{kind} arm of Value::serialize')
    if set(varms) != {'Boolean', 'String', 'Number', 'Array'}: raise Unrecognised('arms of Value::serialize')
    # ---- impl Visitor for ValueVisitor (the Deserialize side of Value): which JSON kinds are accepted, and as what
    vsrc = strip_tests(val)
    if not re.search(r'deserializer\s*\.\s*deserialize_any\s*\(\s*ValueVisitor\s*\)', vsrc): raise Unrecognised('Value::deserialize is not deserialize_any(ValueVisitor)')
    visits = {}
    for m in re.finditer(r'fn\s+(visit_\w+)\s*<', vsrc): visits[m.group(1)] = find_fn(vsrc, m.group(1), after='for ValueVisitor')
    def visit_body(name, arg, depth=0):
        """Lean text of what `visit_<name>(arg)` returns (an Option (Value N)); follows `self.visit_x(..)` delegations"""
        if depth > 4 or name not in visits: raise Unrecognised(f'{name}')
        f = visits[name]; b = f['body']
        if b[1] or b[2] is None: raise Unrecognised(f'body of {name}')
        t = b[2]; par = [p for p in f['params'] if p[0] != 'self'][0][0]
        if t[0] == 'call' and t[1] == ('path', ['Ok']) and len(t[2]) == 1 and t[2][0][0] == 'call' and t[2][0][1][0] == 'path' and t[2][0][1][1][0] == 'Value' and t[2][0][2] == [('path', [par])]:
            return f"some (.{ {'Boolean': 'bool', 'String': 'str', 'Number': 'num'}[t[2][0][1][1][1]] } {arg})"
        if t[0] == 'mcall' and t[1] == ('path', ['self']) and t[2].startswith('visit_') and len(t[4]) == 1:
            a = t[4][0]
            if a == ('mcall', ('path', [par]), 'to_string', None, []): return visit_body(t[2], arg, depth + 1)
            if a == ('cast', ('path', [par]), 'f64'): return visit_body(t[2], f'(jn.ofInt {arg})', depth + 1)          # `v as f64` on u64 / i64: the nearest double
        raise Unrecognised(f'body of {name}')
    sq = visits.get('visit_seq')
    ok_seq = False
    if sq:
        st, tail = sq['body'][1], sq['body'][2]
        ok_seq = (len(st) == 2 and st[0][0] == 'let' and st[0][2] == ('macro', 'vec', []) and st[1][0] == 'expr' and st[1][1][0] == 'whilelet'
                  and st[1][1][1] == ('ptuplestruct', ['Some'], [('pbind', 'value')]) and st[1][1][2] == ('try', ('mcall', ('path', ['seq']), 'next_element', None, []))
                  and tail == ('call', ('path', ['Ok']), [('call', ('path', ['Value', 'Array']), [('path', [st[0][1][1]])])]))
        if ok_seq:
            body = st[1][1][3]; inner = body[1][0][1] if len(body[1]) == 1 and body[2] is None else body[2]
            ok_seq = inner == ('mcall', ('path', [st[0][1][1]]), 'push', None, [('path', ['value'])])
        if not ok_seq: raise Unrecognised('visit_seq')
    if any(k in visits for k in ('visit_unit', 'visit_none', 'visit_some', 'visit_map', 'visit_newtype_struct', 'visit_enum', 'visit_bytes', 'visit_char')): raise Unrecognised('a further visit_ method')
    tv = ['mutual', '/-- `impl Visitor for ValueVisitor` through `deserialize_any`: serde_json calls visit_bool / visit_str / visit_u64 or visit_i64 (integer tokens) / visit_f64 / visit_seq;',
          '    a kind without a visit_ method (null, objects) is refused by the default method -/', 'def toValue (jn : JsonNum N) : Json N → Option (Value N)']
    tv.append('  | .bool b => ' + (visit_body('visit_bool', 'b') if 'visit_bool' in visits else 'none'))
    tv.append('  | .str s => ' + (visit_body('visit_str', 's') if 'visit_str' in visits else 'none'))
    tv.append('  | .num x => ' + (visit_body('visit_f64', 'x') if 'visit_f64' in visits else 'none'))
    iu, ii = (visit_body('visit_u64', 'i') if 'visit_u64' in visits else None), (visit_body('visit_i64', 'i') if 'visit_i64' in visits else None)
    if iu != ii: raise Unrecognised('visit_u64 and visit_i64 differ')
    tv.append('  | .int i => ' + (iu or 'none'))
    tv.append('  | .arr xs => ' + ('(toValues jn xs).map .arr' if ok_seq else 'none'))
    tv += ['  | .null => none', '  | .obj _ => none', 'def toValues (jn : JsonNum N) : List (Json N) → Option (List (Value N))', '  | [] => some []',
           '  | j :: js => match toValue jn j with', '    | some v => (toValues jn js).map (v :: ·)', '    | none => none', 'end', '']
    out = ('/-\n  SlacModel.Generated.SrcSerde — GENERATED on every check run by /verif/tools/rs2lean_serde.py from the CURRENT text of /repo/src/ast.rs, operator.rs and value.rs\n'
           '  (the serde derives and `impl Serialize for Value`).  Do not edit.  SlacProps/C12Source.lean proves SlacModel/Json.lean equal to these functions.\n-/\n'
           'import SlacModel.Json\nset_option autoImplicit false\nnamespace Slac.Generated.SrcSerde\nopen Slac\nvariable {N : Type}\n\n')
    out += '/-- `Operator` with `serde(rename_all = "camelCase")` -/\ndef opName : Op → Str\n' + '\n'.join(f'  | {CTORS[("Operator", v)][0]} => {chars(lc(v))}' for v in ops) + '\n\n'
    out += f'/-- the variants of `Operator` in declaration order -/\ndef allOps : List Op := [' + ', '.join(CTORS[('Operator', v)][0] for v in ops) + ']\n\n'
    out += 'mutual\n/-- `impl Serialize for Value` through serde_json -/\ndef ofValue (jn : JsonNum N) : Value N → Json N\n' + '\n'.join(varms[k] for k in ('Boolean', 'String', 'Number', 'Array')) + '\n'
    out += 'def ofValues (jn : JsonNum N) : List (Value N) → List (Json N)\n  | [] => []\n  | v :: vs => ofValue jn v :: ofValues jn vs\nend\n\n'
    out += f'mutual\n/-- `Expression` with `serde(tag = "{eopts["tag"]}", rename_all = "camelCase")` -/\ndef ofExpr (jn : JsonNum N) : Expr N → Json N\n' + '\n'.join(arms) + '\n'
    out += 'def ofExprs (jn : JsonNum N) : List (Expr N) → List (Json N)\n  | [] => []\n  | e :: es => ofExpr jn e :: ofExprs jn es\nend\n\n'
    out += '\n'.join(tv)
    return out + '\nend Slac.Generated.SrcSerde\n'

if __name__ == '__main__':
    a = sys.argv[1:]
    src = a[a.index('--src') + 1] if '--src' in a else '/repo/src'
    try: print(gen_serde(src))
    except Unrecognised as e: print('unrecognised:', e); sys.exit(3)
