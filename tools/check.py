#!/usr/bin/env python3
"""
check.py <property> [--tier quick|thorough] [--replay FILE]

One check run for one property (DESIGN.md section 6):
  1. cargo build the harness against /repo's working tree       (implementation side)
  2. lake build the driver and the property's theorem module     (model side; theorems re-checked by the kernel)
  3. correspondence: generated protocol lines -> real crate  vs  Lean model   (tie)
     falsifier:      the same lines             -> real crate  vs  Lean Spec / Rust oracle (the property itself)
  4. audit: #print axioms of every theorem of the module, grep for sorry/axiom/native_decide...
  5. verdict, evidence/<id>.json, replay file on violation
Exit 0 = property held on everything explored; exit 1 + `VIOLATION property=<id> replay=<path>` otherwise.
"""
import sys, os, json, subprocess, time, re, hashlib, fcntl, shutil

VERIF = os.path.dirname(os.path.dirname(os.path.abspath(__file__)))
sys.path.insert(0, os.path.join(VERIF, 'tools'))
LEAN = os.path.join(VERIF, 'lean')
HARNESS = os.path.join(VERIF, 'harness')
WORK = os.path.join(VERIF, 'work')
DRIVER = os.path.join(LEAN, '.lake', 'build', 'bin', 'driver')
ENV = dict(os.environ, CARGO_NET_OFFLINE='true', TZ='UTC', LC_ALL='C')
ALLOWED_AXIOMS = {'propext', 'Classical.choice', 'Quot.sound'}

from props import PROPS  # per-property configuration
import predicates
import shrink as shrinker

try:
    import manifest_data as _md
    MANIFEST_TEXT = {c['property_id']: c for c in _md.CHECKS}
except Exception:
    MANIFEST_TEXT = {}
TZ_DEPENDENT = [' ' + n.encode().hex() + ' ' for n in ('date_to_rfc3339', 'date_to_rfc2822', 'date_from_rfc3339', 'date_from_rfc2822')]

def log(*a):
    print(*a, file=sys.stderr, flush=True)

class Lock:
    def __init__(self, name): self.path = os.path.join(WORK, name + '.lock')
    def __enter__(self):
        os.makedirs(WORK, exist_ok=True)
        self.f = open(self.path, 'w'); fcntl.flock(self.f, fcntl.LOCK_EX); return self
    def __exit__(self, *a): fcntl.flock(self.f, fcntl.LOCK_UN); self.f.close()

def sh(cmd, cwd=None, timeout=None):
    """run a command, stdout+stderr captured together in r.stdout"""
    return subprocess.run(cmd, cwd=cwd, env=ENV, timeout=timeout, stdout=subprocess.PIPE, stderr=subprocess.STDOUT)

# ---------------------------------------------------------------- builds
BUILD_CFGS = {
    # name: (cargo args, binary path)
    'default': (['--release'], 'target/release/slacharness'),
    # unoptimised: library calls are not rewritten by the compiler (LLVM turns powf(x, 2.0) with a known exponent into x * x in optimised builds)
    'debug': ([], 'target/debug/slacharness'),
    'checked': (['--profile', 'relchecked'], 'target/relchecked/slacharness'),
    'zero': (['--release', '--features', 'zero_based_strings', '--target-dir', 'target-zero'], 'target-zero/release/slacharness'),
    'zerochecked': (['--profile', 'relchecked', '--features', 'zero_based_strings', '--target-dir', 'target-zero'], 'target-zero/relchecked/slacharness'),
}

def build_harness(cfg='default'):
    args, binp = BUILD_CFGS[cfg]
    with Lock('cargo'):
        r = sh(['cargo', 'build', '--offline', '-q'] + args, cwd=HARNESS, timeout=1800)
    if r.returncode != 0:
        return None, r.stdout.decode(errors='replace')[-4000:]
    return os.path.join(HARNESS, binp), ''

def lake_build(targets):
    with Lock('lake'):
        r = sh(['lake', 'build'] + targets, cwd=LEAN, timeout=3600)
    return r.returncode == 0, r.stdout.decode(errors='replace')

# ---------------------------------------------------------------- running a stream
def run_impl(binary, inp_path, exp_path, per_case_timeout=10.0, env=None, rlimit_as_mb=None, stderr_full=False):
    """Run the real crate over all lines in a worker process.  A dead worker (stack overflow, abort) or a worker that
    produces no answer for `per_case_timeout` seconds (hang) is restarted after the killing line, which gets the
    answer `crash` / `timeout`."""
    import threading, queue
    lines = open(inp_path).read().split('\n')
    if lines and lines[-1] == '': lines.pop()
    answers, crashes = [], []
    start = 0
    while start < len(lines):
        pre = None
        if rlimit_as_mb:
            # fault injection: the worker runs with a small address-space limit, so that anything that needs a big allocation or a new
            # thread (with its stack) is REFUSED by the OS at that point; the unchanged code needs neither for these inputs
            import resource
            lim = int(rlimit_as_mb) * 1024 * 1024
            pre = lambda: resource.setrlimit(resource.RLIMIT_AS, (lim, lim))
        # fault injection: stderr is /dev/full (every write fails with ENOSPC) - a host whose log device is full
        errf = open('/dev/full', 'w') if (stderr_full and os.path.exists('/dev/full')) else subprocess.DEVNULL
        p = subprocess.Popen([binary, 'run'], stdin=subprocess.PIPE, stdout=subprocess.PIPE, stderr=errf, env=env or ENV, preexec_fn=pre)
        chunk = ('\n'.join(lines[start:]) + '\n').encode()
        def feed():
            try: p.stdin.write(chunk); p.stdin.close()
            except Exception: pass
        threading.Thread(target=feed, daemon=True).start()
        q = queue.Queue()
        def pump():
            for raw in p.stdout: q.put(raw)
            q.put(None)
        threading.Thread(target=pump, daemon=True).start()
        got = []; kind = None
        while True:
            try: item = q.get(timeout=per_case_timeout)
            except queue.Empty:
                kind = 'timeout'; p.kill(); break
            if item is None: break
            got.append(item.decode(errors='replace').rstrip('\n'))
        p.wait()
        expected = len(lines) - start
        if kind is None and (p.returncode != 0 or len(got) < expected): kind = f'crash rc={p.returncode}'
        answers.extend(got[:expected])
        if kind is None: break
        killer = start + len(got)
        if killer >= len(lines): break
        answers.append(kind.split()[0])
        crashes.append((killer, lines[killer], kind))
        start = killer + 1
        if len(crashes) >= 5: break       # enough evidence; do not spend the budget on restarting a systematically failing worker
    with open(exp_path, 'w') as f: f.write('\n'.join(answers) + ('\n' if answers else ''))
    return lines, answers, crashes

def run_model(inp_path, out_path, tz=None):
    """run the Lean driver over the input, split over up to 16 driver processes (the driver is single-threaded)"""
    from concurrent.futures import ThreadPoolExecutor
    lines = open(inp_path).read().split('\n')
    if lines and lines[-1] == '': lines.pop()
    menv = dict(ENV, SLAC_MODEL_TZ=tz) if tz else ENV      # the model's local zone = the zone the crate runs under
    k = max(1, min(16, len(lines) // 4000, os.cpu_count() or 1)) if len(lines) >= 8000 or any(l.startswith(('tmrange', 'scanrange')) for l in lines[:3]) else 1
    if any(l.startswith(('tmrange', 'scanrange')) for l in lines[:3]): k = max(1, min(16, len(lines)))
    # interleave so that expensive lines are spread evenly
    parts = [lines[i::k] for i in range(k)]
    def work(i):
        p = subprocess.run([DRIVER], input=('\n'.join(parts[i]) + '\n').encode(), stdout=subprocess.PIPE, stderr=subprocess.PIPE, env=menv, timeout=14400)
        o = p.stdout.decode(errors='replace').split('\n')
        if o and o[-1] == '': o.pop()
        return o, p.returncode
    with ThreadPoolExecutor(max_workers=k) as ex:
        res = list(ex.map(work, range(k)))
    out = [None] * len(lines); rc = 0
    for i, (o, r) in enumerate(res):
        rc = rc or r
        for j, line in enumerate(o):
            if i + j * k < len(out): out[i + j * k] = line
    out = [x if x is not None else 'missing' for x in out]
    with open(out_path, 'w') as f: f.write('\n'.join(out) + '\n')
    return out, rc

def gen_stream(binary, stream, n, seed, path):
    if stream.startswith('py:'):      # a generator script of /verif/tools: `py:<script> <mode…>`
        parts = stream[3:].split(' ')
        with open(path, 'w') as f:
            r = subprocess.run([sys.executable, os.path.join(VERIF, 'tools', parts[0]), str(n), str(seed)] + parts[1:], stdout=f, stderr=subprocess.PIPE, env=ENV, timeout=3600)
        return r.returncode == 0
    with open(path, 'w') as f:
        r = subprocess.run([binary, 'gen', stream, str(n), str(seed)], stdout=f, stderr=subprocess.PIPE, env=ENV, timeout=3600)
    return r.returncode == 0

def impl_violations(st, binary, lines, workdir, tag='shrink'):
    """indices of the lines on which the implementation violates the property (same criteria as the main loop)"""
    inp = os.path.join(workdir, f'{tag}.in'); open(inp, 'w').write('\n'.join(lines) + '\n')
    _, exp, crashes = run_impl(binary, inp, os.path.join(workdir, f'{tag}.exp'), st.get('case_timeout', 10.0))
    bad = set(k for k, _, _ in crashes)
    view = predicates.VIEWS[st.get('view', 'full')]
    if st.get('oracle', 'spec') == 'spec' and st.get('model', True):
        out, _ = run_model(inp, os.path.join(workdir, f'{tag}.out'))
        for k in range(len(lines)):
            parts = [x.strip() for x in (out[k] if k < len(out) else '').split(' | ')]
            if len(parts) > 1 and k < len(exp) and view(exp[k]) != view(parts[1]): bad.add(k)
    for chk in st.get('laws', []):
        for (k, _, _, _) in predicates.LAWS[chk](lines, exp): bad.add(k)
    return bad

# ---------------------------------------------------------------- audit
def expand_case(st, binary, line, workdir):
    """a range request whose digest differs -> the first individual request of that range on which model and crate differ"""
    try:
        r = subprocess.run([binary, st['expand']] + line.split(' ')[1:], stdout=subprocess.PIPE, stderr=subprocess.DEVNULL, env=ENV, timeout=600)
        fl = [l for l in r.stdout.decode().split('\n') if l]
        if not fl: return None
        p = os.path.join(workdir, 'expand.in'); open(p, 'w').write('\n'.join(fl) + '\n')
        lines, exp, _ = run_impl(binary, p, os.path.join(workdir, 'expand.exp'))
        out, rc = run_model(p, os.path.join(workdir, 'expand.out'))
        for l, e, o in zip(lines, exp, out):
            m = o.split(' | ')[0].strip()
            if e.strip() != m: return (l, e, m)
    except Exception:
        pass
    return None

def theorems_of(module):
    path = os.path.join(LEAN, module.replace('.', '/') + '.lean')
    src = open(path).read()
    ns = re.search(r'^namespace\s+(\S+)', src, re.M)
    prefix = (ns.group(1) + '.') if ns else ''
    return [prefix + m for m in re.findall(r'^theorem\s+(\S+)', src, re.M)], src

def strip_comments(src):
    src = re.sub(r'/-.*?-/', '', src, flags=re.S)
    return re.sub(r'--.*', '', src)

FORBIDDEN = re.compile(r'\bsorry\b|\badmit\b|^\s*axiom\s|native_decide|bv_decide|implemented_by|\bunsafe\s|maxHeartbeats\s+0|@\[extern')

def import_closure(modules):
    """project files (relative paths) the given modules depend on, transitively"""
    seen, todo = [], list(modules)
    while todo:
        m = todo.pop()
        rel = m.replace('.', '/') + '.lean'
        if rel in seen or not os.path.exists(os.path.join(LEAN, rel)): continue
        seen.append(rel)
        for imp in re.findall(r'^import\s+(\S+)', open(os.path.join(LEAN, rel)).read(), re.M):
            if imp.split('.')[0] in ('SlacModel', 'SlacProofs', 'SlacProps', 'Driver'): todo.append(imp)
    return sorted(seen)

def audit(modules, workdir):
    """#print axioms for every theorem of the property modules; forbidden-token grep over all model/proof sources."""
    thms = []
    for m in modules:
        t, _ = theorems_of(m); thms += [(m, x) for x in t]
    path = os.path.join(workdir, 'Audit.lean')
    with open(path, 'w') as f:
        for m in modules: f.write(f'import {m}\n')
        for _, t in thms: f.write(f'#print axioms {t}\n')
    with Lock('lake'):
        r = sh(['lake', 'env', 'lean', path], cwd=LEAN, timeout=1800)
    out = r.stdout.decode(errors='replace')
    res = {}
    for m in re.finditer(r"^'(.+?)' (?:depends on axioms: \[([^\]]*)\]|(does not depend on any axioms))", out, re.M | re.S):
        res[m.group(1)] = set() if m.group(3) else set(a.strip() for a in m.group(2).replace('\n', ' ').split(',') if a.strip())
    bad = []
    for _, t in thms:
        if t not in res: bad.append((t, 'no #print axioms output'))
        elif not res[t] <= ALLOWED_AXIOMS: bad.append((t, 'axioms ' + ','.join(sorted(res[t] - ALLOWED_AXIOMS))))
    grep_hits = []
    for rel in import_closure(modules + ['Driver.Main']):
        src = strip_comments(open(os.path.join(LEAN, rel)).read())
        for i, line in enumerate(src.split('\n')):
            if FORBIDDEN.search(line): grep_hits.append(f'{rel}: {line.strip()[:80]}')
    axioms_used = sorted(set().union(*res.values())) if res else []
    return dict(theorems=[t for _, t in thms], discharged=[t for _, t in thms if t in res and res[t] <= ALLOWED_AXIOMS],
                bad=bad, grep_hits=grep_hits, axioms_used=axioms_used, raw=out[-2000:] if bad else '')

# ---------------------------------------------------------------- main
def main():
    args = sys.argv[1:]
    if not args: print(__doc__); sys.exit(2)
    pid = args[0]
    tier = os.environ.get('VERIF_TIER', 'quick')
    replay = None
    i = 1
    while i < len(args):
        if args[i] == '--tier': tier = args[i + 1]; i += 2
        elif args[i] == '--replay': replay = args[i + 1]; i += 2
        else: i += 1
    seed = int(os.environ.get('VERIF_SEED', '1'))
    cfg = PROPS[pid]
    t0 = time.time()
    workdir = os.path.join(WORK, f'{pid}-{tier}' + ('-replay' if replay else ''))
    shutil.rmtree(workdir, ignore_errors=True); os.makedirs(workdir, exist_ok=True)
    os.makedirs(os.path.join(VERIF, 'evidence'), exist_ok=True)
    os.makedirs(os.path.join(VERIF, 'replays'), exist_ok=True)
    known = json.load(open(os.path.join(VERIF, 'known_findings.json')))
    known_ids = {k['id']: k for k in known.get('findings', []) if k['property'] == pid}

    problems = []      # (kind, description, payload)   kind in impl-violation | model-mismatch | proof-broken | infra
    streams_ev = {}
    falsifier_cases = 0
    known_hit = {}
    samples = []

    # 1. builds
    bins = {}
    for b in cfg.get('builds', ['default']):
        path, err = build_harness(b)
        if path is None:
            problems.append(('infra', f'harness build {b} failed (the crate no longer builds or its public API changed)', err)); continue
        bins[b] = path
    if cfg.get('regen') and 'default' in bins:
        for sub, rel in (('builtins-table', 'SlacModel/Generated/Builtins.lean'), ('dispatch-table', 'SlacModel/Generated/Dispatch.lean')):
            r = subprocess.run([bins['default'], sub], stdout=subprocess.PIPE, stderr=subprocess.DEVNULL, env=ENV, timeout=600)
            new = r.stdout.decode()
            path = os.path.join(LEAN, rel)
            with Lock('lake'):
                if r.returncode == 0 and new.strip() and (not os.path.exists(path) or open(path).read() != new):
                    open(path, 'w').write(new)
            if r.returncode != 0:
                problems.append(('infra', f'table generator {sub} failed (rc={r.returncode})', ''))
    # source translation: regenerate the lexical / grammar tables from the current text of /repo/src (tools/translate.py)
    translation = None
    if cfg.get('translate'):
        cfg = dict(cfg, modules=list(cfg['modules']))
        with Lock('lake'):
            r = subprocess.run([sys.executable, os.path.join(VERIF, 'tools', 'translate.py')], stdout=subprocess.PIPE, stderr=subprocess.STDOUT, timeout=120)
        translation = r.stdout.decode(errors='replace').strip()[:600]
        if r.returncode != 0:
            # source shape outside the translator's grammar: NOT a violation; the theorems about the generated tables are not
            # claimed in this run and the behavioural tie (exhaustive token sequences, all code points) decides alone
            failed = {'SlacProps.C01Source' if l.startswith('Grammar') else 'SlacProps.C03Source' for l in translation.split('\n') if 'unrecognised' in l}
            cfg['modules'] = [m for m in cfg['modules'] if m not in (failed or {'SlacProps.C01Source', 'SlacProps.C03Source'})]
            if 'SlacProps.C01Source' in (failed or {'SlacProps.C01Source'}) and cfg.get('srcgen'):
                # SlacProps.C01Parser is stated over the grammar tables as well
                cfg['srcgen'] = {k: v for k, v in cfg['srcgen'].items() if v != 'SlacProps.C01Parser'}
    # second translator (tools/rs2lean.py): whole FUNCTIONS of validate.rs / optimizer.rs / environment.rs / value.rs re-translated into
    # SlacModel/Generated/Src*.lean; `srcgen` maps a generated file to the `…Source` module that proves the hand-written model equal to it
    if cfg.get('srcgen'):
        cfg = dict(cfg, modules=list(cfg['modules']))
        with Lock('lake'):
            r = subprocess.run([sys.executable, os.path.join(VERIF, 'tools', 'rs2lean.py')], stdout=subprocess.PIPE, stderr=subprocess.STDOUT, timeout=120)
        t2 = r.stdout.decode(errors='replace').strip()[:6000]
        translation = (translation + '\n' if translation else '') + t2
        done = {l.split(':')[0] for l in t2.split('\n') if re.match(r'^\w+: (written|unchanged)$', l)}
        for gen_file, module in cfg['srcgen'].items():
            if gen_file in done:
                if module not in cfg['modules']: cfg['modules'].append(module)
            else:
                # source shape outside the translator's subset: NOT a violation; that `…Source` module is not claimed in this run
                cfg['modules'] = [m for m in cfg['modules'] if m != module]
        # the capstone: property theorems restated about the generated functions only (needs every translation of this run)
        # further capstones (property theorems restated about generated functions only): claimed when every translation they rest on succeeded
        for mod, needs in (cfg.get('capstones') or {}).items():
            if set(needs) <= done and mod not in cfg['modules']: cfg['modules'].append(mod)
        if cfg.get('srcspec') and {'SrcInterp', 'SrcOptimizer', 'SrcValidate', 'SrcOrder'} <= done and 'SlacProps.SourceSpec' not in cfg['modules']:
            cfg['modules'].append('SlacProps.SourceSpec')
    ok, out = lake_build(['driver'] + cfg['modules'])
    proof_ok = ok
    if not ok:
        failing = re.findall(r'error: (\S+\.lean:\d+:\d+: .*)', out)[:10]
        problems.append(('proof-broken', 'lake build failed: ' + '; '.join(failing), out[-3000:]))

    # 2/3. streams
    stream_list = cfg['streams'] if replay is None else []
    if replay is not None:
        rp = json.load(open(replay))
        rlines = rp.get('lines', [])
        p = os.path.join(workdir, 'replay.in'); open(p, 'w').write('\n'.join(rlines) + '\n')
        stream_list = [dict(name=rp.get('stream', 'replay'), file=p, build=rp.get('build', 'default'), view=rp.get('view', cfg['streams'][0].get('view', 'full')),
                            oracle=rp.get('oracle', cfg['streams'][0].get('oracle', 'spec')), laws=rp.get('laws', []), model=rp.get('model', True), **({'tz': rp['tz']} if rp.get('tz') else {}))]
    for st in stream_list:
        name = st['name']; build = st.get('build', 'default')
        if build not in bins or not os.path.exists(DRIVER): continue
        n = st.get('n', {}).get(tier, 0)
        inp = st.get('file') or os.path.join(workdir, f'{name}-{build}.in')
        if 'file' not in st:
            if not gen_stream(bins[build], st.get('gen', name), n, seed, inp):
                problems.append(('infra', f'generator {name} failed', '')); continue
        # corpus first: minimised failing inputs of past (seeded) violations, see /verif/corpus/README
        corpus = os.path.join(VERIF, 'corpus', name.split(':')[0] + '.txt')
        if os.path.exists(corpus) and 'file' not in st:
            clines = [l for l in open(corpus).read().split('\n') if l]
            if name.split(':')[0] in ('call', 'rep'):
                off = '0' if build.startswith('zero') else '1'
                sel = set(st.get('gen', name).split(':')[1].split(',')) if ':' in st.get('gen', name) else None
                def keep(l):
                    t = l.split(' ')
                    i = 2 if t[0] == 'rep' else 1
                    try: nm = bytes.fromhex(t[i + 1]).decode()
                    except Exception: return False
                    return t[i] == off and (sel is None or nm in sel)
                clines = [l for l in clines if keep(l)]
            body = open(inp).read(); open(inp, 'w').write('\n'.join(clines) + ('\n' if clines else '') + body)
        ts = time.time()
        senv = dict(ENV, TZ=st['tz']) if st.get('tz') else ENV
        lines, exp, crashes = run_impl(bins[build], inp, os.path.join(workdir, f'{name}-{build}.exp'), st.get('case_timeout', 10.0), env=senv, rlimit_as_mb=st.get('rlimit_as_mb'), stderr_full=st.get('stderr_full', False))
        if st.get('repeat_process'):
            # a second, fresh process (new hasher seeds) evaluating the same calls in REVERSED order (another call history)
            rinp = os.path.join(workdir, f'{name}-{build}.rev.in'); open(rinp, 'w').write('\n'.join(reversed(lines)) + '\n')
            # … on a differently configured host: a decimal-comma locale, another user, home and terminal (a pure builtin is a function of its
            # arguments, not of the process environment; the time zone stays, the RFC builtins are documented to use it)
            env2 = dict(senv, LC_ALL='de_DE.UTF-8', LC_NUMERIC='de_DE.UTF-8', LC_TIME='fr_FR.UTF-8', LC_COLLATE='tr_TR.UTF-8', LANG='de_DE.UTF-8', LANGUAGE='de:fr', HOME='/nonexistent',
                        USER='nobody', LOGNAME='nobody', TERM='dumb', COLUMNS='40', RUST_BACKTRACE='0', TMPDIR='/nonexistent')
            _, exp2r, _ = run_impl(bins[build], rinp, os.path.join(workdir, f'{name}-{build}.exp2'), st.get('case_timeout', 10.0), env=env2)
            exp2 = list(reversed(exp2r)) if len(exp2r) == len(lines) else []
            for k, line in enumerate(lines):
                a = exp[k] if k < len(exp) else 'missing'; b = exp2[k] if k < len(exp2) else 'missing'
                falsifier_cases += 1
                if a != b and not a.startswith('ok impure'):
                    problems.append(('impl-violation', f'stream {name}: the same call answered `{a[:150]}` in one process and `{b[:150]}` in another',
                                     dict(stream=name, build=build, lines=[line], expected=a, actual=b, view='full', oracle='none')))
        if st.get('tz') and st.get('tz_invariant'):
            # falsifier on the crate alone: only the four RFC builtins may consult the host's zone; every other answer must be the
            # one given under UTC
            _, exp_utc, _ = run_impl(bins[build], inp, os.path.join(workdir, f'{name}-{build}.utc.exp'), st.get('case_timeout', 10.0), env=ENV)
            for k, line in enumerate(lines):
                if any(h in line for h in TZ_DEPENDENT): continue
                a = exp[k] if k < len(exp) else 'missing'; b = exp_utc[k] if k < len(exp_utc) else 'missing'
                falsifier_cases += 1
                if a != b and not a.startswith('ok impure'):
                    problems.append(('impl-violation', f'stream {name}: the answer `{a[:150]}` under TZ={st["tz"]} differs from `{b[:150]}` under UTC although the builtin does not involve the local zone',
                                     dict(stream=name, build=build, lines=[line], expected=b, actual=a, view='full', oracle='none', tz=st['tz'])))
        if st.get('model', True):
            out, rc = run_model(inp, os.path.join(workdir, f'{name}-{build}.out'), tz=st.get('tz'))
        else:
            out, rc = None, 0
        view = predicates.VIEWS[st.get('view', 'full')]
        oracle = st.get('oracle', 'spec')
        dis_model, dis_spec, skipped, nontrivial = [], [], 0, set()
        info = {}
        dist = {}
        for k, line in enumerate(lines):
            e = exp[k] if k < len(exp) else 'missing'
            o = (out[k] if k < len(out) else 'missing') if out is not None else e
            parts = [x.strip() for x in o.split(' | ')]
            m = parts[0]; s = parts[1] if len(parts) > 1 else None
            cls = str(predicates.classify(name, line, e))[:160]      # a class label, never a whole answer (evidence files stay small)
            dist[cls] = dist.get(cls, 0) + 1
            if m.startswith('unmodelled'): skipped += 1; continue
            if predicates.nontrivial(name, line, e): nontrivial.add(hashlib.md5(line.encode()).digest()[:8])
            if view(e) != view(m): dis_model.append((k, line, e, m))
            if oracle == 'model' and view(e) != view(m):
                # the Lean definition IS the judge the property names (sequence model, calendar, conversion definitions): a disagreement is a failing input
                falsifier_cases += 1; dis_spec.append((k, line, e, m))
            if s is not None and oracle == 'spec':
                falsifier_cases += 1
                if view(e) != view(s): dis_spec.append((k, line, e, s))
        if st.get('rust_oracle'):
            with open(inp) as fi:
                ro = subprocess.run([bins[build], 'oracle'], stdin=fi, stdout=subprocess.PIPE, env=ENV, timeout=3600).stdout.decode(errors='replace').split('\n')
            for k, line in enumerate(lines):
                if k < len(ro) and ro[k].startswith('info '): info[k] = ro[k][5:]; continue
                if k < len(ro) and ro[k] != 'n/a':
                    falsifier_cases += 1
                    e = exp[k] if k < len(exp) else 'missing'
                    if view(e) != view(ro[k]): dis_spec.append((k, line, e, ro[k]))
        # Rust-side / python-side oracles on the implementation's own answers
        for chk in st.get('laws', []):
            for (k, line, e, why) in predicates.LAWS[chk](lines, exp):
                falsifier_cases += 1
                dis_spec.append((k, line, e, why))
            falsifier_cases += len(lines)
        for (k, line, kind) in crashes:
            dis_spec.append((k, line, kind, 'a value or an error value (no crash, no hang)'))
        streams_ev[f'{name}/{build}'] = dict(cases=len(lines), distinct_nontrivial=len(nontrivial), disagreements=len(dis_model),
                                             spec_violations=len(dis_spec), unmodelled_skipped=skipped, crashes=len(crashes),
                                             exhaustive=name.split(':')[0] in ('evaltable', 'parsekinds', 'scanfrag', 'envex') or (name == 'scanchars' and tier == 'thorough'),
                                             distribution=dict(sorted(dist.items(), key=lambda kv: -kv[1])[:25]),
                                             wall_s=round(time.time() - ts, 1))
        if lines: samples.append(dict(stream=name, input=lines[min(len(lines) - 1, 7)][:400], impl=(exp[min(len(exp) - 1, 7)] if exp else '')[:200]))
        shrunk_done = 0
        for (k, line, e, s) in dis_spec:
            kid = predicates.known_finding(pid, name, line + ((' #' + info[k]) if k in info else ''), e, s, known_ids)
            if kid: known_hit.setdefault(kid, (line, e, s)); continue
            minimal = None
            if shrunk_done < 1 and replay is None and not kid and e.strip() != 'timeout':
                # shrink the first failing case of this stream to a minimal one that still violates the property
                shrunk_done += 1
                try:
                    fails = lambda ls: [i in impl_violations(st, bins[build], ls, workdir) for i in range(len(ls))]
                    m = shrinker.shrink(line, fails)
                    if m != line: minimal = m
                except Exception as ex:
                    minimal = None
            problems.append(('impl-violation', f'stream {name}: implementation answers `{e[:200]}`, the property prescribes `{str(s)[:200]}`',
                             dict(stream=name, build=build, tz=st.get('tz'), lines=[minimal or line], original_line=line if minimal else None, expected=s, actual=e,
                                  view=st.get('view', 'full'), oracle=oracle, laws=st.get('laws', []), model=st.get('model', True))))
        spec_lines = {k for (k, _, _, _) in dis_spec}
        expanded = False
        for (k, line, e, m) in dis_model:
            if k in spec_lines: continue
            sname, sview = name, st.get('view', 'full')
            if st.get('expand') and not expanded and replay is None:
                expanded = True
                f = expand_case(st, bins[build], line, workdir)
                if f: (line, e, m), sname, sview = f, st.get('expand_stream', 'scan'), 'full'
            problems.append(('model-mismatch', f'stream {sname}: model `{m[:200]}` vs implementation `{e[:200]}`',
                             dict(stream=sname, build=build, tz=st.get('tz'), lines=[line], expected=m, actual=e, view=sview, oracle=oracle)))
        if rc != 0:
            problems.append(('infra', f'driver exited with {rc} on stream {name}', ''))

    # 4. audit
    aud = dict(theorems=[], discharged=[], bad=[], grep_hits=[], axioms_used=[])
    if proof_ok:
        aud = audit(cfg['modules'], workdir)
        for t, why in aud['bad']: problems.append(('proof-broken', f'theorem {t}: {why}', aud.get('raw', '')))
        for h in aud['grep_hits']: problems.append(('proof-broken', f'forbidden token: {h}', ''))
        if tier == 'thorough' and replay is None:
            for m in cfg['modules']:
                with Lock('lake'):
                    r = sh(['lake', 'env', 'leanchecker', m], cwd=LEAN, timeout=3600)
                if r.returncode != 0: problems.append(('proof-broken', f'leanchecker rejected {m}', r.stdout.decode(errors='replace')[-2000:]))

    # 5. verdict
    impl = [p for p in problems if p[0] == 'impl-violation']
    other = [p for p in problems if p[0] != 'impl-violation']
    violations = 0
    exit_code = 0
    for kid, (line, e, s) in known_hit.items():
        print(f'KNOWN-FINDING: property={pid} {kid}: {known_ids[kid]["what"]}')
    def write_replay(tag, payload):
        path = os.path.join(VERIF, 'replays', f'{pid}-{tag}-{seed}.json')
        json.dump(payload, open(path, 'w'), indent=1); return path
    if impl:
        kind, desc, payload = impl[0]
        payload = dict(payload, property=pid, kind=kind, seed=seed, description=desc,
                       others=[d for _, d, _ in impl[1:20]], how='tools/check.py %s --replay <this file>' % pid)
        path = write_replay('violation', payload)
        print(f'VIOLATION property={pid} replay={path}')
        violations = len(impl); exit_code = 1
    elif other:
        kind, desc, payload = other[0]
        rp = dict(property=pid, kind=kind, seed=seed, description=desc,
                  broken=[dict(kind=k, what=d) for k, d, _ in other[:20]],
                  detail=payload if isinstance(payload, dict) else str(payload)[-3000:],
                  note='the property is no longer shown to hold: a theorem or a correspondence stream no longer checks; '
                       'the search found no input on which the property itself fails')
        if isinstance(payload, dict): rp.update(lines=payload.get('lines', []), build=payload.get('build', 'default'))
        path = write_replay('broken', rp)
        print(f'VIOLATION property={pid} replay={path} no-failing-input-found')
        violations = len(other); exit_code = 1

    total_cases = sum(s['cases'] for s in streams_ev.values())
    ev = dict(
        property_id=pid, tier=tier, seed=seed, level='proof',
        coverage=dict(
            obligations=len(aud['theorems']), discharged=len(aud['discharged']),
            checker_cmd=f'cd /verif/lean && lake build {" ".join(cfg["modules"])} && lake env lean <generated #print axioms file>' +
                        (' && lake env leanchecker ' + ' '.join(cfg['modules']) if tier == 'thorough' else ''),
            trusted_base=['Lean 4.33 kernel', 'axioms: ' + (', '.join(aud['axioms_used']) or 'none')] + cfg.get('trusted', []) +
                         ['correspondence check (differential testing, bounded): harness generators, canonical printers, Lean driver IO glue, tools/check.py'],
            theorems=aud['theorems'],
            evaluations=total_cases,
            distinct_nontrivial=sum(s['distinct_nontrivial'] for s in streams_ev.values()),
            rule=cfg.get('rule', ''),
            samples=samples[:6] + [dict(theorem=t) for t in aud['theorems'][:3]],
            correspondence=streams_ev,
            falsifier=dict(cases=falsifier_cases, violations=len(impl)),
            known_findings_hit=sorted(known_hit.keys()),
            exhaustive=False,
            exhaustive_streams=sorted(k for k, v in streams_ev.items() if v.get('exhaustive')),
            explanation=cfg.get('explanation', '') or MANIFEST_TEXT.get(pid, {}).get('text', ''),
            **({'source_translation': translation} if translation is not None else {}),
        ),
        assumptions=cfg.get('assumptions', []) or [x for x in [MANIFEST_TEXT.get(pid, {}).get('note', '')] + cfg.get('trusted', []) if x],
        wall_s=round(time.time() - t0, 1),
        violations=violations,
    )
    if replay is None:
        json.dump(ev, open(os.path.join(VERIF, 'evidence', f'{pid}.json'), 'w'), indent=1)
    log(f'[{pid}/{tier}] theorems {len(aud["discharged"])}/{len(aud["theorems"])}; ' +
        '; '.join(f'{k}: {v["cases"]} cases, {v["disagreements"]} model-disagreements, {v["spec_violations"]} property-violations' for k, v in streams_ev.items()) +
        f'; {round(time.time() - t0, 1)} s; exit {exit_code}')
    for k, d, _ in problems[:10]: log('  problem:', k, d[:300])
    sys.exit(exit_code)

if __name__ == '__main__':
    main()
