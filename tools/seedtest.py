#!/usr/bin/env python3
"""
seedtest.py verify <mutation_dir>            confirm a seeded change in a scratch worktree: applies, existing tests pass,
                                             demo fails with it and passes without it
seedtest.py run <mutation_dir> <Cxx> [...]   apply the change to /repo, run the given checks (quick), undo; print who caught it
Results are appended to <mutation_dir>/meta.json under "verification" / "detection".
"""
import sys, os, json, subprocess, shutil, time

REPO = '/repo'; VERIF = '/verif'
ENV = dict(os.environ, CARGO_NET_OFFLINE='true', TZ='UTC')

def sh(cmd, cwd=None, timeout=3600):
    r = subprocess.run(cmd, cwd=cwd, env=ENV, shell=isinstance(cmd, str), stdout=subprocess.PIPE, stderr=subprocess.STDOUT, timeout=timeout)
    return r.returncode, r.stdout.decode(errors='replace')

def tests_summary(out):
    import re
    passed = sum(int(m) for m in re.findall(r'test result: \w+\. (\d+) passed', out))
    failed = sum(int(m) for m in re.findall(r'test result: \w+\. \d+ passed; (\d+) failed', out))
    return passed, failed

def verify(mdir):
    patch = os.path.join(mdir, 'patch.diff'); demo = os.path.join(mdir, 'demo.rs')
    wt = '/tmp/seedcheck-' + os.path.basename(os.path.normpath(mdir))      # one scratch worktree per seeded change: verifications may run in parallel
    sh(f'git -C {REPO} worktree remove --force {wt}'); shutil.rmtree(wt, ignore_errors=True); sh(f'git -C {REPO} worktree prune')
    rc, out = sh(f'git -C {REPO} worktree add -q --detach {wt} HEAD'); assert rc == 0, out
    res = {}
    try:
        shutil.copy(demo, os.path.join(wt, 'tests', 'demo_mutation.rs'))
        rc, out = sh('cargo test --offline --test demo_mutation', cwd=wt); res['demo_without_patch'] = 'pass' if rc == 0 else 'FAIL'
        rc, out = sh(f'git apply {patch}', cwd=wt); res['patch_applies'] = rc == 0
        if rc == 0:
            rc, out = sh('cargo test --offline --test demo_mutation', cwd=wt); res['demo_with_patch'] = 'fail' if rc != 0 else 'PASSES (no demonstration)'
            os.remove(os.path.join(wt, 'tests', 'demo_mutation.rs'))
            rc, out = sh('cargo test --offline', cwd=wt); p, f = tests_summary(out)
            res['existing_tests_with_patch'] = f'{p} passed, {f} failed, rc={rc}'
            rc2, out2 = sh('cargo test --offline --features zero_based_strings', cwd=wt); p2, f2 = tests_summary(out2)
            res['existing_tests_zero_based'] = f'{p2} passed, {f2} failed, rc={rc2}'
            res['ok'] = (res['demo_without_patch'] == 'pass' and res['demo_with_patch'] == 'fail' and rc == 0 and f == 0 and rc2 == 0 and f2 == 0 and p >= 190)
        else:
            res['ok'] = False; res['apply_output'] = out[-500:]
    finally:
        sh(f'git -C {REPO} worktree remove --force {wt}'); shutil.rmtree(wt, ignore_errors=True)
    return res

def run(mdir, props):
    patch = os.path.join(mdir, 'patch.diff')
    rc, out = sh(f'git -C {REPO} status --porcelain --untracked-files=no'); assert out.strip() == '', '/repo not clean: ' + out
    rc, out = sh(f'git -C {REPO} apply {patch}'); assert rc == 0, out
    det = {}
    try:
        for p in props:
            t0 = time.time()
            rc, out = sh(f'timeout 900 python3 tools/check.py {p} --tier quick', cwd=VERIF)
            vio = [l for l in out.split('\n') if l.startswith('VIOLATION')]
            det[p] = dict(exit=rc, violation=vio[0] if vio else None, wall_s=round(time.time() - t0, 1),
                          first_problem=next((l.strip() for l in out.split('\n') if l.strip().startswith('problem:')), None))
            if vio:
                rp = vio[0].split('replay=')[1].split(' ')[0]
                keep = os.path.join(mdir, f'replay-{p}.json')
                try: shutil.copy(rp, keep)
                except Exception: pass
    finally:
        sh(f'git -C {REPO} checkout -- .')
    return det

def main():
    mode, mdir = sys.argv[1], os.path.abspath(sys.argv[2])
    mp = os.path.join(mdir, 'meta.json')
    meta = json.load(open(mp)) if os.path.exists(mp) else {}
    if mode == 'verify':
        meta['verification'] = verify(mdir); print(json.dumps(meta['verification'], indent=1))
    else:
        d = run(mdir, sys.argv[3:]); meta.setdefault('detection', {}).update(d)
        for p, r in d.items(): print(p, 'CAUGHT' if r['violation'] else ('ERROR(no verdict)' if r['exit'] != 0 else 'missed'), r['violation'] or '', '|', (r['first_problem'] or '')[:200])
    json.dump(meta, open(mp, 'w'), indent=1)

if __name__ == '__main__':
    main()
