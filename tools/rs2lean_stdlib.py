#!/usr/bin/env python3
"""
rs2lean_stdlib.py — translation of the parameter-dispatch builtins of src/stdlib/common.rs and the helpers of src/stdlib/mod.rs into Lean,
on every check run, from the CURRENT source text.  Output: SlacModel/Generated/SrcStdlib.lean.  SlacProps/C09Source.lean proves the
hand-written builtin models (SlacModel/Stdlib.lean, StdOrder.lean) equal to the generated functions.

Translated: Value::len (value.rs); get_index, get_string_index, default_string, default_number, smart_vec (mod.rs);
            at, between, bool, compare, empty, if_then, length, all, any, max, min, reverse, float, int, copy, count, find, replace, contains, insert, unique, sort (common.rs);
            is_even, even, odd, pow (math.rs); chr, ord, split, lowercase, uppercase, same_text, trim, trim_left, trim_right (string.rs).
Reading of Rust beyond tools/rs2lean.py (same conventions: ownership erased, Result = Except, slice patterns matched top to bottom, a guarded
arm falls through):
  * `x as usize` on an f64 is the saturating cast `NumX.toUsize`; `STRING_OFFSET as usize` is the parameter `off` (1, or 0 with the feature
    zero_based_strings); `ordering as i8` followed by `f64::from` is -1 / 0 / 1 (`ordCode`); `f64_from_usize(n)` is `NumX.ofNat n`;
  * `x >= 0.0` is `NumX.ge0 x`; `a.checked_sub(b)` is `some (a - b)` if `b <= a`, else `none`;
  * `s.chars().nth(i)` and `v.get(i)` are `xs[i]?` on the character / value list; `c.to_string()` is the one-character text;
  * `a >= b`, `a <= b`, `a < b`, `a > b` on Values are `Value.ge` / `Value.le` / `Value.lt` / `Value.gt` (PartialOrd through `partial_cmp = Some(cmp)`: SrcOrder); `a == b` is `Value.eq`;
  * `xs.iter().all(p)` / `.any(p)` are `List.all` / `List.any`; `xs.iter().max()` / `.min()` are `maxV` / `minV` of SlacModel/StdOrder.lean (std's tie rule:
    the last maximum, the first minimum); `NativeError::from("text")` is `CustomError(text)`; `if c { return x; }` followed by more code is `if c then x else …`; `o.cloned().unwrap_or_else(|| d)` is `Option.getD o d`;
  * `value.len()`, `value.empty()`, `value.is_empty()`, `value.as_bool()` are the methods of value.rs (translated in SrcOrder; `len` = `valueLen`).
Anything else raises `Unrecognised` (file not written, C09Source left out of the run).
"""
import os, sys, re
sys.path.insert(0, os.path.dirname(os.path.abspath(__file__)))
from rsparse import Unrecognised, find_fn, strip_tests
import rs2lean
from rs2lean import Ctx, CTORS, LEAN_TYPE, RUST_TYPE, RERR

NERR = {('NativeError', 'IndexNegative'): ('.indexNegative', [], []), ('NativeError', 'IndexOutOfBounds'): ('.indexOutOfBounds', [0], ['usize']),
        ('NativeError', 'WrongParameterType'): ('.wrongParameterType', [], []), ('NativeError', 'WrongParameterCount'): ('.wrongParameterCount', [0], ['usize'])}

class StdCtx(Ctx):
    def strip_refs(self, e):
        # `c.to_string()` on a char is a conversion, not an ownership no-op: keep it for `method`
        while True:
            if e[0] == 'unop' and e[1] in ('&', '*'): e = e[2]
            elif e[0] == 'mcall' and e[2] in ('clone', 'cloned', 'as_ref', 'as_slice') and not e[4]: e = e[1]
            else: return e
    LEAN_WORDS = {'from', 'at', 'end', 'then', 'else', 'do', 'fun', 'with', 'in', 'by', 'have', 'show', 'open', 'where', 'to'}
    def pat(self, p, ty, env, holes=None):
        if p[0] == 'pbind' and p[1] in self.LEAN_WORDS:
            env[p[1]] = (p[1] + '_', ty); return p[1] + '_'
        # `[a, b, ..]`: a slice pattern with a trailing rest is a cons pattern
        if p[0] == 'pslice' and p[1] and p[1][-1] == ('prest',) and ('prest',) not in p[1][:-1]:
            et = {'exprs': 'expr', 'values': 'value'}.get(ty)
            parts = [self.pat(q, et, env) for q in p[1][:-1]]
            parts = [x if re.fullmatch(r"[\w.']+", x) else f'({x})' for x in parts]
            return ' :: '.join(parts + ['_'])
        return super().pat(p, ty, env, holes)
    def has_return(self, e):
        if isinstance(e, tuple): return (bool(e) and e[0] == 'return') or any(self.has_return(x) for x in e)
        if isinstance(e, list): return any(self.has_return(x) for x in e)
        return False
    def block(self, e, env):
        # `if c { return x; }` followed by the rest of the block  ->  if c then x else rest
        _, stmts, tail = e
        for i, st in enumerate(stmts):
            # `let x = f(g(y)?);`: the `?` is a statement of its own, in evaluation order
            if st[0] == 'let' and st[2][0] != 'try' and st[2][0] not in self.STRUCTURAL:
                tries = self.find_tries(st[2], [])
                if tries:
                    self.fresh += 1; q = f'q{self.fresh}'
                    stmts = stmts[:i] + [('let', ('pbind', q), tries[0]), ('let', st[1], self.subst(st[2], tries[0], ('path', [q])))] + stmts[i + 1:]
                    return self.block(('block', stmts, tail), env)
            # `let x = match s { p => v, q => return r, … }; rest`  ->  match s { p => (let x = v; rest), q => r, … }
            if st[0] == 'let' and st[2][0] == 'match' and self.has_return(st[2]) and st[1][0] == 'pbind':
                arms = []
                for pats, guard, body in st[2][2]:
                    if body[0] == 'return': arms.append((pats, guard, body[1]))
                    elif self.has_return(body): raise Unrecognised('return inside a match arm')
                    else: arms.append((pats, guard, ('block', [('let', st[1], body)] + stmts[i + 1:], tail)))
                return super().block(('block', stmts[:i], ('match', st[2][1], arms)), env)
            # `v.insert(i, x);` on a local Vec: rebinding (Vec::insert shifts the elements from position i on)
            if st[0] == 'expr' and st[1][0] == 'mcall' and st[1][2] == 'insert' and st[1][1][0] == 'path' and len(st[1][1][1]) == 1 and len(st[1][4]) == 2:
                stmts = stmts[:i] + [('let', ('pbind', st[1][1][1][0]), ('call', ('path', ['__insert_at']), [st[1][1]] + st[1][4]))] + stmts[i + 1:]
                return self.block(('block', stmts, tail), env)
            # `v.sort();` on a local Vec<Value>: std's STABLE sort by `Ord::cmp` — on a collection that `cmp` orders as a total preorder this is the unique stable sorted
            # permutation, which the model's insertion sort `StdOrder.sortBy` computes; on other collections std leaves the result unspecified (recorded finding
            # C13-unsafe-collection / C09-sort-unsafe-collection: it may even panic), so the reading claims nothing there beyond what the C13 theorems state
            if st[0] == 'expr' and st[1][0] == 'mcall' and st[1][2] == 'sort' and not st[1][4] and st[1][1][0] == 'path' and len(st[1][1][1]) == 1:
                stmts = stmts[:i] + [('let', ('pbind', st[1][1][1][0]), ('call', ('path', ['__sort_by']), [st[1][1]]))] + stmts[i + 1:]
                return self.block(('block', stmts, tail), env)
            # `for x in xs { if c { acc.push(x) } }`: a left fold over xs
            if st[0] == 'expr' and st[1][0] == 'for' and st[1][1][0] == 'pbind':
                body = st[1][3]; inner = body[2] if (not body[1] and body[2] is not None) else (body[1][0][1] if len(body[1]) == 1 and body[2] is None else None)
                if inner is not None and inner[0] == 'if' and inner[3] is None:
                    blk = inner[2]; push = blk[1][0][1] if len(blk[1]) == 1 and blk[2] is None else blk[2]
                    if push and push[0] == 'mcall' and push[2] == 'push' and push[1][0] == 'path' and len(push[1][1]) == 1 and len(push[4]) == 1:
                        acc = push[1][1][0]
                        fold = ('call', ('path', ['__fold_push']), [('path', [acc]), st[1][2], ('closure', [('pbind', acc), st[1][1]], inner[1]), ('closure', [('pbind', acc), st[1][1]], push[4][0])])
                        stmts = stmts[:i] + [('let', ('pbind', acc), fold)] + stmts[i + 1:]
                        return self.block(('block', stmts, tail), env)
                raise Unrecognised('shape of a for loop')
            if st[0] == 'expr' and st[1][0] == 'if' and st[1][3] is None:
                blk = st[1][2]; last = blk[1][-1] if blk[1] else None
                ret = blk[2] if blk[2] is not None and blk[2][0] == 'return' else (last[1] if last and last[0] == 'expr' and last[1][0] == 'return' and blk[2] is None else None)
                if ret is None or ret[1] is None or len(blk[1]) > (0 if blk[2] is not None else 1): raise Unrecognised('`if` statement that does not just return')
                pre = ('block', stmts[:i], ('if', st[1][1], ('block', [], ret[1]), ('block', stmts[i + 1:], tail)))
                return super().block(pre, env)
        return super().block(e, env)
    def subsumes(self, general, special):
        """every value matching `special` matches `general` (constructor structure only)"""
        g, sp = general, special
        while g[0] == 'pref': g = g[1]
        while sp[0] == 'pref': sp = sp[1]
        if g[0] in ('pwild', 'pbind'): return True
        if g[0] == 'prest': return sp[0] == 'prest'
        if g[0] != sp[0]: return False
        if g[0] == 'pslice': return len(g[1]) == len(sp[1]) and all(self.subsumes(a, b) for a, b in zip(g[1], sp[1]))
        if g[0] == 'ptuplestruct': return g[1] == sp[1] and len(g[2]) == len(sp[2]) and all(self.subsumes(a, b) for a, b in zip(g[2], sp[2]))
        if g[0] == 'ppath': return g[1] == sp[1]
        return False
    def match(self, e, env, arm_fn=None):
        # a guarded arm `p if g => b` becomes `p => if g then b else (match scrutinee with the arms below)`; arms below that `p` already covers are dropped
        # from the outer match (they are reached through the inner one only)
        scrut, arms = e[1], e[2]
        if any(g is not None for _, g, _ in arms) and all(len(p) == 1 for p, _, _ in arms) and scrut[0] == 'path':
            new, covered = [], []
            for i, (pats, g, body) in enumerate(arms):
                if any(self.subsumes(c, pats[0]) for c in covered): continue
                if g is None: new.append((pats, None, body)); continue
                blk = body if body[0] == 'block' else ('block', [], body)
                new.append((pats, None, ('if', g, blk, ('block', [], ('match', scrut, arms[i + 1:])))))
                covered.append(pats[0])
            return super().match(('match', scrut, new), env, arm_fn)
        return super().match(e, env, arm_fn)
    STRUCTURAL = ('match', 'if', 'iflet', 'block', 'closure', 'for', 'loop', 'while', 'whilelet')
    def find_tries(self, e, acc):
        # `x?` inside an argument / operand (not under a match / if / block / closure, which are translated structurally): evaluation order
        if isinstance(e, tuple):
            if e and e[0] in self.STRUCTURAL: return acc
            if e and e[0] == 'try': self.find_tries(e[1], acc); acc.append(e); return acc
            for x in e: self.find_tries(x, acc)
        elif isinstance(e, list):
            for x in e: self.find_tries(x, acc)
        return acc
    def subst(self, e, old, new):
        if e is old: return new
        if isinstance(e, tuple): return tuple(self.subst(x, old, new) for x in e)
        if isinstance(e, list): return [self.subst(x, old, new) for x in e]
        return e
    def tx(self, e, env):
        e = self.strip_refs(e); k = e[0]
        if k in ('call', 'mcall', 'binop', 'unop', 'struct', 'tuple', 'cast'):
            tries = self.find_tries(e, [])
            if tries:
                t0 = tries[0]; s, t = self.tx(t0[1], env)
                if not (isinstance(t, tuple) and t[0] == 'res'): raise Unrecognised('? on a non-Result')
                self.fresh += 1; v = f'q{self.fresh}'; env2 = dict(env); env2[v] = (v, t[1])
                body, bt = self.tx(self.subst(e, t0, ('path', [v])), env2)
                return f'({s}) >>= fun {v} =>\n' + body, bt
        if k == 'call' and e[1] == ('path', ['NativeError', 'from']) and len(e[2]) == 1 and e[2][0][0] == 'lit' and e[2][0][1] == 'str':
            text = bytes(e[2][0][2][1:-1], 'utf-8').decode('unicode_escape')
            if not text.isascii() or "'" in text or '\\' in text: raise Unrecognised('message text')
            return '.custom [' + ', '.join(f"'{ch}'" for ch in text) + ']', 'nerr'
        if k == 'lit' and e[1] == 'num' and re.fullmatch(r'\d+\.0', e[2]) and e[2] not in ('0.0', '1.0'): return f'NumX.ofNat {e[2][:-2]}', 'f64'      # an integer-valued f64 literal
        if k == 'binop' and e[1] == '%':
            l, lt = self.tx(e[2], env); r, rt = self.tx(e[3], env)
            if lt == 'f64' and rt == 'f64': return f'NumOps.rem {self.paren(l)} {self.paren(r)}', 'f64'
        if k == 'match' and e[1][0] == 'try':
            # `match f(x)? { … }`: bind, then match
            s, t = self.tx(e[1][1], env)
            if not (isinstance(t, tuple) and t[0] == 'res'): raise Unrecognised('? on a non-Result')
            self.fresh += 1; v = f'r{self.fresh}'; env2 = dict(env); env2[v] = (v, t[1])
            body, bt = self.match(('match', ('path', [v]), e[2]), env2)
            return f'({s}) >>= fun {v} =>\n' + body, bt
        if k == 'cast':
            if e[1] == ('path', ['STRING_OFFSET']) and e[2] == 'usize': return 'off', 'usize'
            s, t = self.tx(e[1], env)
            if t == 'f64' and e[2] == 'usize': return f'NumX.toUsize {self.paren(s)}', 'usize'
            if t == 'f64' and e[2] == 'u32': return f'NumX.toU32 {self.paren(s)}', 'u32'
            if t == 'f64' and e[2] == 'i64': return f'NumX.toI64 {self.paren(s)}', 'i64'
            if t == 'f64' and e[2] == 'i32': return f'NumX.toI32 {self.paren(s)}', 'i32'
            if t == 'i64' and e[2] == 'f64': return f'NumX.ofInt {self.paren(s)}', 'f64'
            if t == 'weekday' and e[2] == 'u8': return s, 'u32'                                       # `Weekday as u8`: Monday = 0
            if t == 'char' and e[2] == 'u8': return f'({self.paren(s)}.toNat % 256)', 'u8'                     # `c as u8` truncates to the low byte
            if t == 'ordering' and e[2] == 'i8': return s, 'ordering_i8'
            raise Unrecognised(f'cast of {t} to {e[2]}')
        if k == 'binop' and e[1] == '>=' and e[3] == ('lit', 'num', '0.0'):
            s, t = self.tx(e[2], env)
            if t == 'f64': return f'NumX.ge0 {self.paren(s)}', 'bool'
        if k == 'binop' and e[1] in ('>=', '<=', '==', '!=', '<', '>'):
            l, lt = self.tx(e[2], env); r, rt = self.tx(e[3], env)
            if lt == 'value' and rt == 'value':
                fn = {'>=': 'Value.ge', '<=': 'Value.le', '==': 'Value.eq', '!=': 'Value.eq', '<': 'Value.lt', '>': 'Value.gt'}[e[1]]
                body = f'{fn} {self.paren(l)} {self.paren(r)}'
                return (f'!({body})' if e[1] == '!=' else f'({body})'), 'bool'
        if k == 'call' and e[1] == ('path', ['f64', 'from']) and len(e[2]) == 1 and e[2][0][0] == 'call' and e[2][0][1] == ('path', ['i8', 'from']) and len(e[2][0][2]) == 1:
            s, t = self.tx(e[2][0][2][0], env)
            if t == 'bool': return f'NumOps.ofBool {self.paren(s)}', 'f64'
        if k == 'call' and e[1] == ('path', ['f64', 'from']) and len(e[2]) == 1:
            s, t = self.tx(e[2][0], env)
            if t == 'ordering_i8': return f'StdOrder.ordCode {self.paren(s)}', 'f64'
        if k == 'call' and e[1] == ('path', ['__sort_by']) and len(e[2]) == 1:
            v, vt = self.tx(e[2][0], env)
            if vt == 'values': return f'StdOrder.sortBy {self.paren(v)}', 'values'
            raise Unrecognised('sort of a non-Vec')
        if k == 'call' and e[1] == ('path', ['__insert_at']) and len(e[2]) == 3:
            v, vt = self.tx(e[2][0], env); i, it = self.tx(e[2][1], env); x, xt = self.tx(e[2][2], env)
            if vt == 'values' and it == 'usize' and xt == 'value': return f'Stdlib.insertAt {self.paren(v)} {self.paren(i)} {self.paren(x)}', 'values'
            raise Unrecognised('Vec::insert')
        if k == 'call' and e[1] == ('path', ['__fold_push']) and len(e[2]) == 4:
            a, at = self.tx(e[2][0], env); xs, xt = self.tx(e[2][1], env)
            if at != 'values' or xt != 'values': raise Unrecognised('for loop over a non-Vec')
            env1 = dict(env); pa = self.pat(e[2][2][1][0], 'values', env1); px = self.pat(e[2][2][1][1], 'value', env1)
            c, ct = self.tx(e[2][2][2], env1); v, vt = self.tx(e[2][3][2], env1)
            return f'List.foldl (fun {pa} {px} => if {c} then {pa} ++ [{v}] else {pa}) {self.paren(a)} {self.paren(xs)}', 'values'
        if k == 'macro' and e[1] == 'vec' and not e[2]: return '[]', 'values'
        # `format!("{:X}", n)` with n: i64 — upper-case hexadecimal of the two's complement bit pattern (core::fmt::UpperHex for i64)
        if k == 'macro' and e[1] == 'format' and len(e[2]) > 2 and e[2][0] == ('str', '"{:X}"') and e[2][1][1] == ',':
            from rsparse import P
            p = P(list(e[2][2:]) + [('eof', '')]); arg = p.expr()
            if p.peek()[0] != 'eof': raise Unrecognised('format! with more than one argument')
            s, t = self.tx(arg, env)
            if t == 'i64': return f'Stdlib.hexUpperI64 {self.paren(s)}', 'str'
            raise Unrecognised(f'format!("{{:X}}") of {t}')
        if k == 'binop' and e[1] == '>':
            l, lt = self.tx(e[2], env); r, rt = self.tx(e[3], env)
            if lt == 'usize' and rt == 'usize': return f'decide ({l} > {r})', 'bool'
        if k == 'binop' and e[1] == '+':
            l, lt = self.tx(e[2], env); r, rt = self.tx(e[3], env)
            if lt == 'str' and rt == 'str': return f'{self.paren(l)} ++ {self.paren(r)}', 'str'
        if k == 'path' and e[1] == ['MILLISECONDS_PER_DAY']: return 'dayLen', 'f64'
        if k == 'binop' and e[1] in ('*', '/'):
            l, lt = self.tx(e[2], env); r, rt = self.tx(e[3], env)
            if lt == 'f64' and rt == 'f64': return f'NumOps.{ {"*": "mul", "/": "div"}[e[1]] } {self.paren(l)} {self.paren(r)}', 'f64'
            if lt == 'u32' and rt == 'usize' and e[1] == '/': return f'({l} / {r})', 'u32'
        if k == 'lit' and e[1] == 'num' and re.fullmatch(r'[\d_]+', e[2]) and '_' in e[2]: return e[2].replace('_', ''), 'usize'
        if k == 'call' and e[1] == ('path', ['f64', 'from']) and len(e[2]) == 1 and not (e[2][0][0] == 'cast' and e[2][0][2] in ('u8', 'i8')) and not (e[2][0][0] == 'call'):
            x, xt = self.tx(e[2][0], env)
            if xt == 'i32': return f'NumX.ofInt {self.paren(x)}', 'f64'
            if xt == 'u32': return f'NumX.ofNat {self.paren(x)}', 'f64'
        if k == 'call' and e[1] == ('path', ['f64', 'from']) and len(e[2]) == 1 and e[2][0][0] == 'cast' and e[2][0][2] == 'u8' and e[2][0][1][0] == 'mcall' and e[2][0][1][2] == 'weekday':
            x, xt = self.tx(e[2][0], env)
            if xt == 'u32': return f'NumX.ofNat {self.paren(x)}', 'f64'
        if k == 'call' and e[1] == ('path', ['Months', 'new']) and len(e[2]) == 1:
            x, xt = self.tx(e[2][0], env)
            if xt == 'u32': return x, 'months'
        if k == 'call' and e[1] == ('path', ['Value', 'from']) and len(e[2]) == 1:
            x, xt = self.tx(e[2][0], env)
            if xt == 'dt': return f'(from_datetime {self.paren(x)} : Value N)', 'value'
        if k == 'lit' and e[1] == 'num' and e[2] == '1.0': return '(NumOps.ofBool true : N)', 'f64'          # 1.0 = f64::from(true)
        if k == 'binop' and e[1] in ('>', '<') and e[3] == ('lit', 'num', '0.0'):
            x, xt = self.tx(e[2], env)
            if xt == 'f64': return f'NumX.{ {">": "gt0", "<": "lt0"}[e[1]] } {self.paren(x)}', 'bool'
        if k == 'call' and e[1] == ('path', ['NaiveDate', 'from_ymd_opt']) and len(e[2]) == 3:
            ts = [self.tx(a, env) for a in e[2]]
            if [t for _, t in ts] == ['i32', 'u32', 'u32']:
                y, m, d = [self.paren(x) for x, _ in ts]
                return f'(if validDate {y} {m} {d} then some (daysFromCivil {y} {m} {d}) else none)', ('opt', 'date')
        if k == 'call' and e[1] == ('path', ['NaiveDateTime', 'try_from']) and len(e[2]) == 1:
            v, vt = self.tx(e[2][0], env)
            if vt == 'value': return f'try_from {self.paren(v)}', ('res', 'dt')
        if k == 'binop' and e[1] in ('==', '!=') and e[3][0] == 'lit' and e[3][1] == 'num' and re.fullmatch(r'\d+', e[3][2]):
            l, lt = self.tx(e[2], env)
            if lt == 'i32': return (f'({l} == {e[3][2]})' if e[1] == '==' else f'({l} != {e[3][2]})'), 'bool'
        if k == 'binop' and e[1] == '%' and e[3][0] == 'lit' and e[3][1] == 'num' and re.fullmatch(r'\d+', e[3][2]):
            l, lt = self.tx(e[2], env)
            if lt == 'i32': return f'{self.paren(l)} % {e[3][2]}', 'i32'
        if k == 'call' and e[1] == ('path', ['usize_from_f64']) and len(e[2]) == 1:
            s, t = self.tx(e[2][0], env)
            if t == 'f64': return f'NumX.floorUsize {self.paren(s)}', 'usize'
        if k == 'path' and e[1] == ['STRING_OFFSET']: return 'NumX.ofNat off', 'f64'
        if k == 'unop' and e[1] == '-' and e[2] == ('lit', 'num', '1.0'): return 'NumX.ofInt (-1)', 'f64'
        if k == 'lit' and e[1] == 'str' and e[2] == '""': return '([] : Str)', 'str'
        if k == 'lit' and e[1] == 'num' and e[2] == '0.0': return '(NumOps.zero : N)', 'f64'
        if k == 'binop' and e[1] == '+':
            l, lt = self.tx(e[2], env); r, rt = self.tx(e[3], env)
            if lt == 'f64' and rt == 'f64': return f'NumOps.add {self.paren(l)} {self.paren(r)}', 'f64'
        if k == 'call' and e[1] == ('path', ['Some']) and len(e[2]) == 1:
            s, t = self.tx(e[2][0], env); return f'some {self.paren(s)}', ('opt', t)
        if k == 'call' and e[1] == ('path', ['f64', 'from']) and len(e[2]) == 1 and e[2][0][0] == 'cast' and e[2][0][2] == 'u8':
            s, t = self.tx(e[2][0], env)
            if t == 'u8': return f'NumX.ofNat {self.paren(s)}', 'f64'
        if k == 'call' and e[1] == ('path', ['f64_from_usize']) and len(e[2]) == 1:
            s, t = self.tx(e[2][0], env)
            if t == 'usize': return f'NumX.ofNat {self.paren(s)}', 'f64'
        if k == 'path' and len(e[1]) == 2 and tuple(e[1]) in NERR and not NERR[tuple(e[1])][1]: return NERR[tuple(e[1])][0], 'nerr'
        if k == 'call' and e[1][0] == 'path' and tuple(e[1][1]) in NERR:
            c, fields, tys = NERR[tuple(e[1][1])]
            if len(e[2]) != len(fields): raise Unrecognised('arity of a NativeError variant')
            return (c + ' ' + ' '.join(self.paren(self.tx(a, env)[0]) for a in e[2])).strip(), 'nerr'
        return super().tx(e, env)
    def method(self, e, env):
        _, recv, name, tf, args = e
        if name == 'nth' and len(args) == 1 and recv[0] == 'mcall' and recv[2] == 'chars' and not recv[4]:
            s, t = self.tx(recv[1], env); i, it = self.tx(args[0], env)
            if t == 'str' and it == 'usize': return f'{self.paren(s)}[{i}]?', ('opt', 'char')
        if name == 'count' and not args and recv[0] == 'mcall' and recv[2] == 'chars' and not recv[4]:
            s, t = self.tx(recv[1], env)
            if t == 'str': return f'{self.paren(s)}.length', 'usize'          # text is a list of characters in the model
        # `text.parse::<f64>().map_err(|e| e.to_string())`: std's float grammar; the error is the text of ParseFloatError (made a CustomError by `?`)
        if name == 'map_err' and len(args) == 1 and recv[0] == 'mcall' and recv[2] == 'parse' and recv[3] and 'f64' in recv[3] and not recv[4] \
           and args[0] == ('closure', [('pbind', 'e')], ('mcall', ('path', ['e']), 'to_string', None, [])):
            s, t = self.tx(recv[1], env)
            if t == 'str': return f'(match NumOps.parse (N := N) {self.paren(s)} with | some x => .ok x | none => .error (Stdlib.parseFloatError {self.paren(s)}))', ('res', 'f64')
        # `xs.iter().cloned().rev().collect()` / `s.chars().rev().collect()`: the reversed list / text
        if name == 'collect' and not args and recv[0] == 'mcall' and recv[2] == 'rev' and not recv[4]:
            inner = recv[1]
            while inner[0] == 'mcall' and inner[2] in ('cloned', 'copied') and not inner[4]: inner = inner[1]
            if inner[0] == 'mcall' and inner[2] in ('iter', 'chars') and not inner[4]:
                s, t = self.tx(inner[1], env)
                if (t, inner[2]) in (('values', 'iter'), ('str', 'chars')): return f'List.reverse {self.paren(s)}', t
        # `xs.chars().skip(i).take(n).collect()` / `xs.iter().skip(i).take(n).cloned().collect()`: (xs.drop i).take n
        if name == 'collect' and not args:
            inner = recv
            while inner[0] == 'mcall' and inner[2] in ('cloned', 'copied') and not inner[4]: inner = inner[1]
            if inner[0] == 'mcall' and inner[2] == 'take' and len(inner[4]) == 1 and inner[1][0] == 'mcall' and inner[1][2] == 'skip' and len(inner[1][4]) == 1:
                base = inner[1][1]
                if base[0] == 'mcall' and base[2] in ('chars', 'iter') and not base[4]:
                    s, t = self.tx(base[1], env); i, it = self.tx(inner[1][4][0], env); n, nt = self.tx(inner[4][0], env)
                    if (t, base[2]) in (('str', 'chars'), ('values', 'iter')) and it == 'usize' and nt == 'usize':
                        return f'List.take {self.paren(n)} (List.drop {self.paren(i)} {self.paren(s)})', t
            # `xs.iter().filter_map(|v| body).collect()`
            if inner[0] == 'mcall' and inner[2] == 'filter_map' and len(inner[4]) == 1 and inner[4][0][0] == 'closure' and inner[1][0] == 'mcall' and inner[1][2] == 'iter':
                s, t = self.tx(inner[1][1], env); cl = inner[4][0]
                if t == 'values':
                    env1 = dict(env); p = self.pat(cl[1][0], 'value', env1); b, bt = self.tx(cl[2], env1)
                    return f'List.filterMap (fun {p} => {b}) {self.paren(s)}', 'values'
        # `xs.iter().filter(|v| p).count()`
        if name == 'count' and not args and recv[0] == 'mcall' and recv[2] == 'filter' and len(recv[4]) == 1 and recv[4][0][0] == 'closure' and recv[1][0] == 'mcall' and recv[1][2] == 'iter':
            s, t = self.tx(recv[1][1], env); cl = recv[4][0]
            if t == 'values':
                env1 = dict(env); p = self.pat(cl[1][0], 'value', env1); b, bt = self.tx(cl[2], env1)
                return f'(List.filter (fun {p} => {b}) {self.paren(s)}).length', 'usize'
        # `hay.match_indices(needle).count()`: the number of non-overlapping occurrences, found left to right (std) = Seq.countOcc
        if name == 'count' and not args and recv[0] == 'mcall' and recv[2] == 'match_indices' and len(recv[4]) == 1:
            s, t = self.tx(recv[1], env); n, nt = self.tx(recv[4][0], env)
            if t == 'str' and nt == 'str': return f'Seq.countOcc {self.paren(n)} {self.paren(s)}', 'usize'
        # `hay.find(needle).map(|b| hay[..b].chars().count())`: the CHARACTER index of the first occurrence = Seq.findSeq
        if name == 'map' and len(args) == 1 and recv[0] == 'mcall' and recv[2] == 'find' and len(recv[4]) == 1 and args[0][0] == 'closure' and len(args[0][1]) == 1 and args[0][1][0][0] == 'pbind':
            b = args[0][1][0][1]; hay = recv[1]
            want = ('mcall', ('mcall', ('index', hay, ('range_to', ('path', [b]))), 'chars', None, []), 'count', None, [])
            if args[0][2] == want:
                s, t = self.tx(hay, env); n, nt = self.tx(recv[4][0], env)
                if t == 'str' and nt == 'str': return f'Seq.findSeq {self.paren(n)} {self.paren(s)}', ('opt', 'usize')
        # `xs.iter().position(|v| p)`
        if name == 'position' and len(args) == 1 and args[0][0] == 'closure' and recv[0] == 'mcall' and recv[2] == 'iter' and not recv[4]:
            s, t = self.tx(recv[1], env); cl = args[0]
            if t == 'values':
                env1 = dict(env); p = self.pat(cl[1][0], 'value', env1); b, bt = self.tx(cl[2], env1)
                return f'Stdlib.findIdx? (fun {p} => {b}) {self.paren(s)}', ('opt', 'usize')
        # `o.map_or(d, |x| f)`
        if name == 'map_or' and len(args) == 2 and args[1][0] == 'closure' and len(args[1][1]) == 1:
            s, t = self.tx(recv, env)
            if isinstance(t, tuple) and t[0] == 'opt':
                d, dt = self.tx(args[0], env); env1 = dict(env); p = self.pat(args[1][1][0], t[1], env1); b, bt = self.tx(args[1][2], env1)
                return f'(match {s} with | some {p} => {b} | none => {d})', bt
        # `text.replace(from, to)`: every non-overlapping occurrence, left to right (std) = Seq.replaceSeq
        if name == 'replace' and len(args) == 2:
            s, t = self.tx(recv, env); a, at = self.tx(args[0], env); b, bt = self.tx(args[1], env)
            if t == 'str' and at == 'str' and bt == 'str': return f'Seq.replaceSeq {self.paren(a)} {self.paren(b)} {self.paren(s)}', 'str'
        # ---- chrono, as far as the core of src/stdlib/time.rs calls it: a NaiveDateTime is the model's `DT` (days since 1970-01-01 + millisecond of the day) -------
        if not args and name in ('year', 'month', 'day', 'hour', 'minute', 'second', 'weekday', 'nanosecond'):
            d, dt = self.tx(recv, env)
            if dt == 'dt':
                return {'year': (f'{self.paren(d)}.year', 'i32'), 'month': (f'{self.paren(d)}.month', 'u32'), 'day': (f'{self.paren(d)}.day', 'u32'), 'hour': (f'{self.paren(d)}.hour', 'u32'),
                        'minute': (f'{self.paren(d)}.minute', 'u32'), 'second': (f'{self.paren(d)}.second', 'u32'), 'weekday': (f'weekday {self.paren(d)}.days', 'weekday'),
                        'nanosecond': (f'({self.paren(d)}.milli * 1000000)', 'u32')}[name]          # the model keeps whole milliseconds (the conversion rounds to them)
        # `Months::new(n)` is the count n; `dt.checked_add_months(k)` / `checked_sub_months(k)`: whole months with the day clamped to the target month, None outside
        # chrono's year range = the model's addMonths (C16 proves its calendar laws)
        if name in ('checked_add_months', 'checked_sub_months') and len(args) == 1:
            d, dt = self.tx(recv, env); k, kt = self.tx(args[0], env)
            if dt == 'dt' and kt == 'months':
                return f'addMonths {self.paren(d)} ({"-" if name == "checked_sub_months" else ""}(({k} : Nat) : Int))', ('opt', 'dt')
        if name == 'unsigned_abs' and not args:
            x, xt = self.tx(recv, env)
            if xt == 'i32': return f'Int.natAbs {self.paren(x)}', 'u32'
        # `NaiveDate::from_ymd_opt(y, m, d)`: the day number of a valid proleptic-Gregorian date within chrono's year range, else None (a NaiveDate is its day number)
        # `.map(|date| date.and_time(NaiveTime::default()))`: midnight of that day; `.map(Value::from)`: the conversion above
        if name == 'and_time' and args == [('call', ('path', ['NaiveTime', 'default']), [])]:
            d, dt = self.tx(recv, env)
            if dt == 'date': return f'(⟨{d}, 0⟩ : DT)', 'dt'
        if name == 'map' and args == [('path', ['Value', 'from'])]:
            o, ot = self.tx(recv, env)
            if ot == ('opt', 'dt'): return f'Option.map (fun t => (from_datetime t : Value N)) {self.paren(o)}', ('opt', 'value')
        # `NaiveDate::default().and_hms_milli_opt(h, m, s, ms)`: 1970-01-01 at that time of day (a millisecond part of 1000–1999 only with second 59: leap second), else None
        if name == 'and_hms_milli_opt' and len(args) == 4 and recv == ('call', ('path', ['NaiveDate', 'default']), []):
            ts = [self.tx(a, env) for a in args]
            if all(t == 'u32' for _, t in ts):
                h, m, sx, ms = [self.paren(x) for x, _ in ts]
                return f'(if validTime {h} {m} {sx} {ms} then some (⟨0, ({h} * 3600 + {m} * 60 + {sx}) * 1000 + {ms}⟩ : DT) else none)', ('opt', 'dt')
        # `[a, b, c].iter().all(|v| p)` on an array literal of numbers
        if name == 'all' and len(args) == 1 and args[0][0] == 'closure' and recv[0] == 'mcall' and recv[2] == 'iter' and recv[1][0] == 'array':
            items = [self.tx(a, env) for a in recv[1][1]]
            if all(t == 'f64' for _, t in items):
                env1 = dict(env); pp = self.pat(args[0][1][0], 'f64', env1); b, bt = self.tx(args[0][2], env1)
                return f'List.all [{", ".join(x for x, _ in items)}] (fun {pp} => {b})', 'bool'
        # `DateTime::from_timestamp_millis(ms).map(|dt| dt.naive_utc())`: the UTC date-time of that millisecond, None outside chrono's year range
        if name == 'map' and args == [('closure', [('pbind', 'dt')], ('mcall', ('path', ['dt']), 'naive_utc', None, []))] and recv[0] == 'call' \
           and recv[1] == ('path', ['DateTime', 'from_timestamp_millis']) and len(recv[2]) == 1:
            m, mt = self.tx(recv[2][0], env)
            if mt == 'i64': return f'ofMillis {self.paren(m)}', ('opt', 'dt')
        if name == 'map' and len(args) == 1 and args[0][0] == 'closure' and len(args[0][1]) == 1:
            r0, t0 = self.tx(recv, env)
            if isinstance(t0, tuple) and t0[0] == 'opt':
                env1 = dict(env); pp = self.pat(args[0][1][0], t0[1], env1); b, bt = self.tx(args[0][2], env1)
                return f'Option.map (fun {pp} => {b}) {self.paren(r0)}', ('opt', bt)
            if isinstance(t0, tuple) and t0[0] == 'res':
                env1 = dict(env); pp = self.pat(args[0][1][0], t0[1], env1); b, bt = self.tx(args[0][2], env1)
                return f'Except.map (fun {pp} => {b}) {self.paren(r0)}', ('res', bt)
        if name == 'timestamp_millis' and not args and recv[0] == 'mcall' and recv[2] == 'and_utc' and not recv[4]:
            d, dt = self.tx(recv[1], env)
            if dt == 'dt': return f'{self.paren(d)}.totalMs', 'i64'
        if name == 'round' and not args:
            x, xt = self.tx(recv, env)
            if xt == 'f64': return f'NumX.round {self.paren(x)}', 'f64'
        # ---- regex-lite, as far as src/stdlib/regex.rs calls it: the operations of the model's abstract `Regex.Engine` --------------------------------
        if name == 'map_err' and recv[0] == 'call' and recv[1] == ('path', ['Regex', 'new']) and len(recv[2]) == 1 \
           and args == [('closure', [('pbind', 'e')], ('call', ('path', ['NativeError', 'from']), [('mcall', ('path', ['e']), 'to_string', None, [])]))]:
            p, pt = self.tx(recv[2][0], env)
            if pt == 'str': return f'(match E.compile {self.paren(p)} with | .ok re => .ok re | .error msg => .error (.custom msg))', ('res', 're')
        if name == 'is_match' and len(args) == 1:
            r, rt = self.tx(recv, env); h, ht = self.tx(args[0], env)
            if rt == 're' and ht == 'str': return f'E.isMatch {self.paren(r)} {self.paren(h)}', 'bool'
        if name == 'captures_len' and not args:
            r, rt = self.tx(recv, env)
            if rt == 're': return f'E.capturesLen {self.paren(r)}', 'usize'
        # `re.find_iter(h).map(|m| Value::String(m.as_str().to_string())).collect()`
        if name == 'collect' and not args and recv[0] == 'mcall' and recv[2] == 'map' and recv[1][0] == 'mcall' and recv[1][2] == 'find_iter' and len(recv[1][4]) == 1 \
           and recv[4] == [('closure', [('pbind', 'm')], ('call', ('path', ['Value', 'String']), [('mcall', ('mcall', ('path', ['m']), 'as_str', None, []), 'to_string', None, [])]))]:
            r, rt = self.tx(recv[1][1], env); h, ht = self.tx(recv[1][4][0], env)
            if rt == 're' and ht == 'str': return f'List.map Value.str (E.findIter {self.paren(r)} {self.paren(h)})', 'values'
        # `captures.iter().map(|c| c.map_or("", |m| m.as_str())).map(|m| Value::String(m.to_string())).collect()`: every group, "" for a group that did not take part
        if name == 'collect' and not args and recv[0] == 'mcall' and recv[2] == 'map' and recv[4] == [('closure', [('pbind', 'm')], ('call', ('path', ['Value', 'String']), [('mcall', ('path', ['m']), 'to_string', None, [])]))] \
           and recv[1][0] == 'mcall' and recv[1][2] == 'map' and recv[1][4] == [('closure', [('pbind', 'c')], ('mcall', ('path', ['c']), 'map_or', None, [('lit', 'str', '""'), ('closure', [('pbind', 'm')], ('mcall', ('path', ['m']), 'as_str', None, []))]))] \
           and recv[1][1][0] == 'mcall' and recv[1][1][2] == 'iter' and not recv[1][1][4]:
            c, ct = self.tx(recv[1][1][1], env)
            if ct == 'caps': return f'List.map (fun c => Value.str (Option.getD c [])) {self.paren(c)}', 'values'
        # `re.captures(h).map_or_else(|| vec![Value::String(String::new()); re.captures_len()], get_capture_groups)`
        if name == 'map_or_else' and len(args) == 2 and recv[0] == 'mcall' and recv[2] == 'captures' and len(recv[4]) == 1 and args[1] == ('path', ['get_capture_groups']) \
           and args[0][0] == 'closure' and not args[0][1] and args[0][2][0] == 'macro' and args[0][2][1] == 'vec':
            toks = [t[1] for t in args[0][2][2]]
            if toks[:9] != ['Value', '::', 'String', '(', 'String', '::', 'new', '(', ')'] or toks[9:11] != [')', ';']: raise Unrecognised('vec! of empty strings')
            from rsparse import P
            q = P(args[0][2][2][11:]); cnt = q.expr()
            r, rt = self.tx(recv[1], env); h, ht = self.tx(recv[4][0], env); n, nt = self.tx(cnt, env)
            if rt == 're' and ht == 'str' and nt == 'usize':
                return f'(match E.captures {self.paren(r)} {self.paren(h)} with | none => List.replicate {self.paren(n)} (Value.str []) | some cs => get_capture_groups E cs)', 'values'
        if name == 'to_string' and not args and recv[0] == 'mcall' and recv[2] == 'replacen' and len(recv[4]) == 3:
            r, rt = self.tx(recv[1], env); h, ht = self.tx(recv[4][0], env); l, lt = self.tx(recv[4][1], env); x, xt = self.tx(recv[4][2], env)
            if rt == 're' and ht == 'str' and lt == 'usize' and xt == 'str': return f'E.replacen {self.paren(r)} {self.paren(h)} {self.paren(l)} {self.paren(x)}', 'str'
        # `(0.0..=127.0).contains(x)`: the closed ASCII range test of NumX
        if name == 'contains' and len(args) == 1 and recv == ('binop', '..=', ('lit', 'num', '0.0'), ('lit', 'num', '127.0')):
            a, at = self.tx(args[0], env)
            if at == 'f64': return f'NumX.inAscii {self.paren(a)}', 'bool'
        # `char::from_u32(n).unwrap_or('\0')`: the scalar value n, or NUL when n is not one (surrogate, beyond U+10FFFF) = Lean's Char.ofNat
        if name == 'unwrap_or' and args == [('lit', 'chr', "'\\0'")] and recv[0] == 'call' and recv[1] == ('path', ['char', 'from_u32']) and len(recv[2]) == 1:
            n, nt = self.tx(recv[2][0], env)
            if nt == 'u32': return f'Char.ofNat {self.paren(n)}', 'char'
        # `s.chars().next().unwrap_or('\0')`: the first character, NUL for the empty text
        if name == 'unwrap_or' and args == [('lit', 'chr', "'\\0'")] and recv[0] == 'mcall' and recv[2] == 'next' and recv[1][0] == 'mcall' and recv[1][2] == 'chars':
            s, t = self.tx(recv[1][1], env)
            if t == 'str': return f'(List.head? {self.paren(s)}).getD (Char.ofNat 0)', 'char'
        if name == 'is_ascii' and not args:
            s, t = self.tx(recv, env)
            if t == 'str': return f'List.all {self.paren(s)} (fun c => decide (c.toNat < 128))', 'bool'
        if name == 'contains' and len(args) == 1:
            s, t = self.tx(recv, env); a, at = self.tx(args[0], env)
            if t == 'str' and at == 'str': return f'Seq.containsSeq {self.paren(a)} {self.paren(s)}', 'bool'          # str::contains(&str): a contiguous occurrence
            if t == 'values' and at == 'value': return f'List.any {self.paren(s)} (fun r => Value.eq r {self.paren(a)})', 'bool'   # Vec::contains: `r == x` for some element
        if name == 'any' and recv[0] == 'mcall' and recv[2] == 'iter' and len(args) == 1 and args[0][0] == 'closure':
            pass
        if name == 'collect' and not args and recv[0] == 'mcall' and recv[2] in ('take', 'skip') and len(recv[4]) == 1 and recv[1][0] == 'mcall' and recv[1][2] == 'chars' and not recv[1][4]:
            s, t = self.tx(recv[1][1], env); n, nt = self.tx(recv[4][0], env)
            if t == 'str' and nt == 'usize': return f'List.{ {"take": "take", "skip": "drop"}[recv[2]] } {self.paren(n)} {self.paren(s)}', 'str'
        # `line.split(sep).map(String::from).map(Value::String).collect()`: the pieces between non-overlapping occurrences (std) = Seq.splitOn
        if name == 'collect' and not args and recv[0] == 'mcall' and recv[2] == 'map' and recv[4] == [('path', ['Value', 'String'])] and recv[1][0] == 'mcall' and recv[1][2] == 'map' \
           and recv[1][4] == [('path', ['String', 'from'])] and recv[1][1][0] == 'mcall' and recv[1][1][2] == 'split' and len(recv[1][1][4]) == 1:
            s, t = self.tx(recv[1][1][1], env); a, at = self.tx(recv[1][1][4][0], env)
            if t == 'str' and at == 'str': return f'List.map Value.str (Seq.splitOn {self.paren(a)} {self.paren(s)})', 'values'
        if name in F64_METHODS and not args:
            s, t = self.tx(recv, env)
            if t == 'f64': return f'{F64_METHODS[name]} {self.paren(s)}', 'f64'
        if name == 'floor' and not args:
            s, t = self.tx(recv, env)
            if t == 'f64': return f'NumX.floor {self.paren(s)}', 'f64'
        if name == 'powf' and len(args) == 1:
            s, t = self.tx(recv, env); x, xt = self.tx(args[0], env)
            if t == 'f64' and xt == 'f64': return f'NumX.pow {self.paren(s)} {self.paren(x)}', 'f64'
        if name == 'trunc' and not args:
            s, t = self.tx(recv, env)
            if t == 'f64': return f'NumOps.trunc {self.paren(s)}', 'f64'
        if name in ('max', 'min') and not args and recv[0] == 'mcall' and recv[2] == 'iter' and not recv[4]:
            xs, xt = self.tx(recv[1], env)
            # Iterator::max / min over `Ord for Value`: the LAST maximum / the FIRST minimum (std's documented tie rule), None when empty
            if xt == 'values': return f'StdOrder.{name}V {self.paren(xs)}', ('opt', 'value')
        if name == 'is_empty' and not args:
            xs, xt = self.tx(recv, env)
            if xt == 'values': return f'List.isEmpty {self.paren(xs)}', 'bool'
        if name in ('all', 'any') and recv[0] == 'mcall' and recv[2] == 'iter' and len(args) == 1 and args[0][0] == 'closure':
            xs, xt = self.tx(recv[1], env); cl = args[0]
            if xt == 'values':
                env1 = dict(env); p = self.pat(cl[1][0], 'value', env1); b, bt = self.tx(cl[2], env1)
                return f'List.{name} {self.paren(xs)} (fun {p} => {b})', 'bool'
        if name == 'unwrap_or_else' and len(args) == 1 and args[0][0] == 'closure' and not args[0][1]:
            s, t = self.tx(recv, env)
            if isinstance(t, tuple) and t[0] == 'opt':
                b, bt = self.tx(args[0][2], dict(env)); return f'Option.getD {self.paren(s)} {self.paren(b)}', t[1] or bt
        s, t = self.tx(recv, env)
        if name == 'get' and len(args) == 1 and t == 'values':
            i, it = self.tx(args[0], env)
            if it == 'usize': return f'{self.paren(s)}[{i}]?', ('opt', 'value')
        if name == 'to_string' and not args and t == 'char': return f'[{s}]', 'str'
        if name == 'to_string' and not args and t == 'str': return s, 'str'
        # Unicode case mapping and white-space trimming of std: the model's CaseMap parameter (instantiated with std's dumped tables) and Seq.trim*
        if name in ('to_lowercase', 'to_uppercase') and not args and t == 'str': return f'cm.{ {"to_lowercase": "lower", "to_uppercase": "upper"}[name] } {self.paren(s)}', 'str'
        if name in ('trim', 'trim_start', 'trim_end') and not args and t == 'str':
            return f'Slac.{ {"trim": "trimBoth", "trim_start": "trimLeft", "trim_end": "trimRight"}[name] } {self.paren(s)}', 'str'
        if name == 'checked_sub' and len(args) == 1 and t == 'usize':
            b, bt = self.tx(args[0], env)
            if bt == 'usize': return f'(if {b} ≤ {s} then some ({s} - {b}) else none)', ('opt', 'usize')
        if t == 'value' and not args and name in ('as_bool', 'is_empty', 'empty', 'len'):
            return {'as_bool': f'Value.asBool {self.paren(s)}', 'is_empty': f'Value.isEmpty {self.paren(s)}', 'empty': f'Value.empty {self.paren(s)}',
                    'len': f'value_len {self.paren(s)}'}[name], {'as_bool': 'bool', 'is_empty': 'bool', 'empty': 'value', 'len': 'usize'}[name]
        if t == 'value' and name == 'cmp' and len(args) == 1:
            o, ot = self.tx(args[0], env)
            if ot == 'value': return f'Value.cmp {self.paren(s)} {self.paren(o)}', 'ordering'
        if name == 'len' and not args and t == 'values': return f'{self.paren(s)}.length', 'usize'
        return Ctx.method(self, ('mcall', recv, name, tf, args), env)

HELPERS = [('get_index', 'get_index', False), ('get_string_index', 'get_string_index', True), ('default_string', 'default_string', False),
           ('default_number', 'default_number', False), ('smart_vec', 'smart_vec', False)]
BUILTINS = [('at', 'at_', True), ('between', 'between', False), ('bool', 'bool', False), ('compare', 'compare', False), ('empty', 'empty', False),
            ('if_then', 'if_then', False), ('length', 'length', False), ('all', 'all', False), ('any', 'any', False), ('max', 'max', False), ('min', 'min', False),
            ('reverse', 'reverse', False), ('float', 'float', False), ('int', 'int', False),
            ('copy', 'copy', True), ('count', 'count', False), ('find', 'find', True), ('replace', 'replace', False),
            ('contains', 'contains', False), ('insert', 'insert', True), ('unique', 'unique', False), ('sort', 'sort', False)]

def strip_macros(text):
    """remove `macro_rules! name { … }` definitions and `name!( … );` item invocations of those macros (their `$` syntax is outside the parser)"""
    names = re.findall(r'macro_rules!\s*(\w+)', text)
    def cut(t, start, open_ch, close_ch):
        i = t.index(open_ch, start); d = 0
        for j in range(i, len(t)):
            if t[j] == open_ch: d += 1
            elif t[j] == close_ch:
                d -= 1
                if d == 0: return t[:start] + t[j + 1:]
        raise Unrecognised('unbalanced macro')
    while True:
        m = re.search(r'macro_rules!\s*\w+\s*\{', text)
        if not m: break
        text = cut(text, m.start(), '{', '}')
    for n in names:
        while True:
            m = re.search(r'\b' + n + r'!\s*\(', text)
            if not m: break
            text = cut(text, m.start(), '(', ')')
    return text

def expand_math_macro(text):
    """`macro_rules! generate_std_math_functions { ($($func_name:ident $std_func:ident),*) => {$( ITEM )*}; }` and its one invocation
    `generate_std_math_functions!(a b, c d, …);`: the ITEM once per pair, `$func_name` / `$std_func` replaced (macro_rules substitution of two identifiers).
    Returns (text of the generated functions, [(func_name, std_func)])"""
    m = re.search(r'macro_rules!\s*generate_std_math_functions\s*\{\s*\(\s*\$\(\s*\$func_name\s*:\s*ident\s+\$std_func\s*:\s*ident\s*\)\s*,\s*\*\s*\)\s*=>\s*\{\s*\$\(', text)
    if not m: raise Unrecognised('generate_std_math_functions: rule shape')
    i = m.end(); d = 1; j = i
    while d > 0:
        if j >= len(text): raise Unrecognised('unbalanced macro')
        if text[j] == '(': d += 1
        elif text[j] == ')': d -= 1
        j += 1
    item = text[i:j - 1]
    if not re.match(r'\s*\*\s*\}\s*;?\s*\}', text[j:]): raise Unrecognised('generate_std_math_functions: more than one rule / repetition')
    inv = re.findall(r'\bgenerate_std_math_functions!\s*\(([^()]*)\)\s*;', text)
    if len(inv) != 1: raise Unrecognised('generate_std_math_functions: invocations')
    pairs = []
    for part in inv[0].split(','):
        w = part.split()
        if len(w) != 2 or not all(re.fullmatch(r'[A-Za-z_]\w*', x) for x in w): raise Unrecognised('generate_std_math_functions: argument ' + part.strip())
        pairs.append((w[0], w[1]))
    if '$' in item.replace('$func_name', '').replace('$std_func', ''): raise Unrecognised('generate_std_math_functions: other metavariables')
    return '\n'.join(item.replace('$func_name', a).replace('$std_func', b) for a, b in pairs), pairs

F64_METHODS = {'abs': 'NumX.abs', 'atan': 'NumX.atan', 'cos': 'NumX.cos', 'exp': 'NumX.exp', 'fract': 'NumX.fract', 'ln': 'NumX.ln', 'round': 'NumX.round', 'sin': 'NumX.sin', 'sqrt': 'NumX.sqrt'}

STRING = [('chr', 'chr'), ('ord', 'ord'), ('split', 'split'), ('lowercase', 'lowercase'), ('uppercase', 'uppercase'), ('same_text', 'same_text'), ('trim', 'trim'), ('trim_left', 'trim_left'), ('trim_right', 'trim_right')]
MATH = [('even', 'even', False), ('odd', 'odd', False), ('pow', 'pow', False), ('int_to_hex', 'int_to_hex', False)]

def gen_stdlib(srcdir):
    mod = strip_tests(open(os.path.join(srcdir, 'stdlib', 'mod.rs')).read()); com = strip_tests(open(os.path.join(srcdir, 'stdlib', 'common.rs')).read())
    val = strip_tests(open(os.path.join(srcdir, 'value.rs')).read())
    # `STRING_OFFSET`: 1, or 0 with the feature zero_based_strings
    if not re.search(r'cfg\(not\(feature\s*=\s*"zero_based_strings"\)\)\]\s*(pub(\(crate\))?\s+)?const\s+STRING_OFFSET\s*:\s*\w+\s*=\s*1\s*;', mod + com + open(os.path.join(srcdir, 'stdlib', 'mod.rs')).read()) and \
       not re.search(r'const\s+STRING_OFFSET', mod + com): raise Unrecognised('STRING_OFFSET')
    # `Value::len`: characters of a String, elements of an Array, 0 otherwise (the model's valueLen)
    vl = find_fn(val, 'len', 'impl Value')
    RUST_TYPE.update({'f64': 'f64', 'Result <usize , NativeError>': ('res', 'usize'), 'Result<usize, NativeError>': ('res', 'usize'), "&'a [Value]": 'values', "&'a str": 'str',
                      "Result <&'a str , NativeError>": ('res', 'str'), 'Result <f64 , NativeError>': ('res', 'f64'), '&[Value]': 'values'})
    LEAN_TYPE.update({'char': 'Char', 'nerr': 'NativeError'})
    fns = {}
    for rust, lean, off in HELPERS:
        f = find_fn(mod, rust); fns[rust] = (lean + (' off' if off else ''), [t for _, t in f['params']], rs2lean.rust_type(f['ret'], None))
    mth_raw = strip_tests(open(os.path.join(srcdir, 'stdlib', 'math.rs')).read())
    gen_text, gen_pairs = expand_math_macro(mth_raw)
    mth = strip_macros(mth_raw)
    if any(re.search(r'\bfn\s+' + a + r'\b', mth) for a, _ in gen_pairs): raise Unrecognised('a generated maths function is also defined by hand')
    fns['is_even'] = ('is_even', ['f64'], 'bool')
    for rust, lean, off in BUILTINS + MATH: fns[rust] = (lean + (' off' if off else ''), ['values'], ('res', 'value'))
    c = StdCtx(RERR, 'NativeError', selfty=None, module_fns=fns)
    cv = StdCtx(RERR, 'NativeError', selfty='value', module_fns={})
    vl['params'] = [('self', '&Self')]
    d, aux = cv.pure_fn(vl, 'value_len')
    out = aux + ['/-- `Value::len` (src/value.rs) -/\n' + d + '\n']
    for rust, lean, off in HELPERS + BUILTINS:
        f = find_fn(mod if (rust, lean, off) in HELPERS else com, rust)
        d, aux = c.pure_fn(f, lean, extra_params=[('off', 'usize')] if off else [])
        out += aux + [f'/-- `{rust}` (src/stdlib/{"mod" if (rust, lean, off) in HELPERS else "common"}.rs) -/\n' + d + '\n']
    d, aux = c.pure_fn(find_fn(mth, 'is_even'), 'is_even'); out += aux + ['/-- `is_even` (src/stdlib/math.rs) -/\n' + d + '\n']
    for rust, lean, off in MATH:
        d, aux = c.pure_fn(find_fn(mth, rust), lean); out += aux + [f'/-- `{rust}` (src/stdlib/math.rs) -/\n' + d + '\n']
    for rust, std in gen_pairs:
        fns[rust] = (rust, ['values'], ('res', 'value'))
        d, aux = c.pure_fn(find_fn(gen_text, rust), rust); out += aux + [f'/-- `{rust}` (src/stdlib/math.rs, generated by `generate_std_math_functions!({rust} {std})`) -/\n' + d + '\n']
    stg = strip_tests(open(os.path.join(srcdir, 'stdlib', 'string.rs')).read())
    LEAN_TYPE['casemap'] = 'Stdlib.CaseMap'
    for rust, lean in STRING:
        uses_cm = rust in ('lowercase', 'uppercase', 'same_text')
        d, aux = c.pure_fn(find_fn(stg, rust), lean, extra_params=[('cm', 'casemap')] if uses_cm else [])
        out += aux + [f'/-- `{rust}` (src/stdlib/string.rs) -/\n' + d + '\n']
    head = ('/-\n  SlacModel.Generated.SrcStdlib — GENERATED on every check run by /verif/tools/rs2lean_stdlib.py from the CURRENT text of /repo/src/stdlib/mod.rs and\n'
            '  common.rs.  Do not edit.  SlacProps/C09Source.lean proves the builtin models of SlacModel/Stdlib.lean and StdOrder.lean equal to these functions.\n-/\n'
            'import SlacModel.Stdlib\nimport SlacModel.StdOrder\nset_option autoImplicit false\nnamespace Slac.Generated.SrcStdlib\nopen Slac\nvariable {N : Type} [NumX N]\n\n')
    return head + '\n'.join(out) + '\nend Slac.Generated.SrcStdlib\n'

def gen_time(srcdir):
    """the core of src/stdlib/time.rs: the two conversions between a datetime NUMBER and chrono's NaiveDateTime, and the component builtins.  A NaiveDateTime is the
    model's `DT` (SlacModel/TimeCore.lean: days since 1970-01-01 and millisecond of the day; chrono's calendar = the proved civil-from-days arithmetic)"""
    tm = strip_tests(open(os.path.join(srcdir, 'stdlib', 'time.rs')).read())
    if not re.search(r'const\s+MILLISECONDS_PER_DAY\s*:\s*f64\s*=\s*24\.\s*\*\s*60\.\s*\*\s*60\.\s*\*\s*1000\.\s*;', tm): raise Unrecognised('MILLISECONDS_PER_DAY')
    RUST_TYPE.update({'&[Value]': 'values', '&Value': 'value', 'NaiveDateTime': 'dt', 'Result <Self , Self::Error>': ('res', 'dt'), 'Self': 'value'})
    LEAN_TYPE.update({'dt': 'DT', 'nerr': 'NativeError', 'i64': 'Int', 'i32': 'Int', 'u32': 'Nat', 'date': 'Int', 'months': 'Nat'})
    RUST_TYPE.update({'f64': 'f64', 'Result <f64 , NativeError>': ('res', 'f64'), "&'a [Value]": 'values', "&'a str": 'str', "Result <&'a str , NativeError>": ('res', 'str')})
    c = StdCtx(RERR, 'NativeError', selfty=None, module_fns={'default_number': ('SrcStdlib.default_number', ['values', 'usize', 'f64'], ('res', 'f64'))})
    out = []
    d, aux = c.pure_fn(find_fn(tm, 'try_from', after='impl TryFrom < & Value > for NaiveDateTime'), 'try_from')
    out += aux + ['/-- `impl TryFrom<&Value> for NaiveDateTime` (src/stdlib/time.rs) -/\n' + d + '\n']
    f = find_fn(tm, 'from', after='impl From < NaiveDateTime > for Value'); f['ret'] = 'Self'
    d, aux = c.pure_fn(f, 'from_datetime')
    out += aux + ['/-- `impl From<NaiveDateTime> for Value` (src/stdlib/time.rs) -/\n' + d + '\n']
    for rust in ('year', 'month', 'day', 'hour', 'minute', 'second', 'millisecond', 'day_of_week', 'is_leap_year', 'encode_date', 'encode_time', 'inc_month'):
        d, aux = c.pure_fn(find_fn(tm, rust), rust)
        out += aux + [f'/-- `{rust}` (src/stdlib/time.rs) -/\n' + d + '\n']
    head = ('/-\n  SlacModel.Generated.SrcTime — GENERATED on every check run by /verif/tools/rs2lean_stdlib.py from the CURRENT text of /repo/src/stdlib/time.rs\n'
            '  (the number <-> NaiveDateTime conversions and the component builtins).  Do not edit.  SlacProps/C16Source.lean proves SlacModel/TimeCore.lean equal to these functions.\n-/\n'
            'import SlacModel.TimeCore\nimport SlacModel.Generated.SrcStdlib\nset_option autoImplicit false\nset_option linter.unusedVariables false\nnamespace Slac.Generated.SrcTime\nopen Slac Slac.Time\nvariable {N : Type} [NumX N]\n\n')
    return head + '\n'.join(out) + '\nend Slac.Generated.SrcTime\n'

def gen_regex(srcdir):
    """src/stdlib/regex.rs: the four wrappers (and get_capture_groups) over the model's abstract `Regex.Engine` (SlacModel/Regex.lean lists exactly the
    regex-lite operations the wrappers call: Regex::new, is_match, find_iter + as_str, captures (group 0 first, a group that did not take part = None),
    captures_len, replacen)"""
    rx = strip_tests(open(os.path.join(srcdir, 'stdlib', 'regex.rs')).read()); mod = strip_tests(open(os.path.join(srcdir, 'stdlib', 'mod.rs')).read())
    RUST_TYPE.update({'f64': 'f64', '&[Value]': 'values', 'Captures': 'caps', 'Vec <Value>': 'values', 'Result <usize , NativeError>': ('res', 'usize'), "&'a [Value]": 'values', "&'a str": 'str',
                      "Result <&'a str , NativeError>": ('res', 'str'), 'Result <f64 , NativeError>': ('res', 'f64')})
    LEAN_TYPE.update({'caps': 'List (Option Str)', 're': 'Re', 'engine': 'Regex.Engine Re', 'nerr': 'NativeError'})
    fns = {'default_string': ('SrcStdlib.default_string', ['values', 'usize', 'str'], ('res', 'str')), 'default_number': ('SrcStdlib.default_number', ['values', 'usize', 'f64'], ('res', 'f64')),
           'get_capture_groups': ('get_capture_groups E', ['caps'], 'values')}
    c = StdCtx(RERR, 'NativeError', selfty=None, module_fns=fns)
    out = []
    for rust, lean in (('get_capture_groups', 'get_capture_groups'), ('is_match', 'is_match'), ('find', 'find'), ('capture', 'capture'), ('replace', 'replace')):
        d, aux = c.pure_fn(find_fn(rx, rust), lean, extra_params=[('E', 'engine')])
        out += aux + [f'/-- `{rust}` (src/stdlib/regex.rs) -/\n' + d + '\n']
    head = ('/-\n  SlacModel.Generated.SrcRegex — GENERATED on every check run by /verif/tools/rs2lean_stdlib.py from the CURRENT text of /repo/src/stdlib/regex.rs.\n'
            '  Do not edit.  SlacProps/C18Source.lean proves the wrapper models of SlacModel/Regex.lean equal to these functions, for every engine.\n-/\n'
            'import SlacModel.Regex\nimport SlacModel.Generated.SrcStdlib\nset_option autoImplicit false\nset_option linter.unusedVariables false\nnamespace Slac.Generated.SrcRegex\nopen Slac\nvariable {N : Type} [NumX N] {Re : Type}\n\n')
    return head + '\n'.join(out) + '\nend Slac.Generated.SrcRegex\n'

if __name__ == '__main__':
    a = sys.argv[1:]
    src = a[a.index('--src') + 1] if '--src' in a else '/repo/src'
    try: print(gen_regex(src) if '--regex' in a else gen_time(src) if '--time' in a else gen_stdlib(src))
    except Unrecognised as e: print('unrecognised:', e); sys.exit(3)
