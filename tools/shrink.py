"""Shrinking of failing protocol lines of the tree streams (eval / opt / chkvf / chkbool / json / rt):
delete sub-trees, shorten lists, simplify literals, drop unused environment entries — keeping a candidate only if it
still fails in the same way.  Candidates of one round are evaluated in one batch on implementation and model."""

def parse_value(t, i):
    tok = t[i]
    if tok[0] == 'A':
        n = int(tok[1:]); j = i + 1
        for _ in range(n): j = parse_value(t, j)
        return j
    return i + 1

def parse_expr(t, i):
    """returns (node, next) with node = (kind, head_tokens, children:list[node]) ; literals keep their value tokens in head"""
    k = t[i]
    if k == 'L':
        j = parse_value(t, i + 1); return ('L', t[i:j], []), j
    if k == 'V': return ('V', t[i:i + 2], []), i + 2
    if k == 'U':
        c, j = parse_expr(t, i + 2); return ('U', t[i:i + 2], [c]), j
    if k == 'I':
        a, j = parse_expr(t, i + 2); b, j = parse_expr(t, j); return ('I', t[i:i + 2], [a, b]), j
    if k == 'T':
        a, j = parse_expr(t, i + 2); b, j = parse_expr(t, j); c, j = parse_expr(t, j); return ('T', t[i:i + 2], [a, b, c]), j
    if k == 'R':
        n = int(t[i + 1]); j = i + 2; cs = []
        for _ in range(n): c, j = parse_expr(t, j); cs.append(c)
        return ('R', [k], cs), j
    if k == 'C':
        n = int(t[i + 2]); j = i + 3; cs = []
        for _ in range(n): c, j = parse_expr(t, j); cs.append(c)
        return ('C', [k, t[i + 1]], cs), j
    raise ValueError('bad expr token ' + k)

def show(node):
    kind, head, cs = node
    if kind in ('R', 'C'): return ' '.join(head + [str(len(cs))] + [show(c) for c in cs])
    return ' '.join(head + [show(c) for c in cs])

def size(node): return 1 + sum(size(c) for c in node[2])

ATOMS = [('L', ['L', 'B0'], []), ('L', ['L', 'N3ff0000000000000'], []), ('L', ['L', 'S-'], [])]

def variants(node):
    """all trees obtained by one simplification somewhere in the tree"""
    kind, head, cs = node
    out = []
    for c in cs: out.append(c)                                   # replace by a child
    if kind != 'L' or len(head) > 2: out.extend(ATOMS)            # replace by an atom
    if kind in ('R', 'C'):
        for i in range(len(cs)): out.append((kind, head, cs[:i] + cs[i + 1:]))
    for i, c in enumerate(cs):
        for v in variants(c): out.append((kind, head, cs[:i] + [v] + cs[i + 1:]))
    return out

def split_env(t, i):
    """`E nv (name value)* nf (6 tokens)*` → (vars, fns, next)"""
    assert t[i] == 'E'
    nv = int(t[i + 1]); j = i + 2; vs = []
    for _ in range(nv):
        k = parse_value(t, j + 1); vs.append(t[j:k]); j = k
    nf = int(t[j]); j += 1; fs = []
    for _ in range(nf): fs.append(t[j:j + 6]); j += 6
    return vs, fs, j

def show_env(vs, fs): return ' '.join(['E', str(len(vs))] + [x for v in vs for x in v] + [str(len(fs))] + [x for f in fs for x in f])

def candidates(line):
    t = line.split(' ')
    stream = t[0]
    try:
        if stream in ('eval', 'opt', 'chkvf', 'chkbool'):
            vs, fs, j = split_env(t, 1); e, _ = parse_expr(t, j)
            out = []
            for v in variants(e): out.append(f'{stream} {show_env(vs, fs)} {show(v)}')
            for i in range(len(vs)): out.append(f'{stream} {show_env(vs[:i] + vs[i + 1:], fs)} {show(e)}')
            for i in range(len(fs)): out.append(f'{stream} {show_env(vs, fs[:i] + fs[i + 1:])} {show(e)}')
            return out
        if stream == 'json':
            e, _ = parse_expr(t, 1); return [f'json {show(v)}' for v in variants(e)]
        if stream == 'rt':
            e, _ = parse_expr(t, 2); return [f'rt {t[1]} {show(v)}' for v in variants(e)]
    except Exception:
        return []
    return []

def shrink(line, fails, rounds=12, batch=400, budget_s=45.0):
    """fails(list of lines) -> list of bool"""
    import time
    t0 = time.time()
    if len(line) > 60_000: return line          # a case that large (wide lists, chains of thousands of levels) is reported as it is: the variants of a tree of n nodes cost n^2
    cur = line
    for _ in range(rounds):
        if time.time() - t0 > budget_s: break
        cands = sorted(set(candidates(cur)), key=len)[:batch]
        # keep one round cheap on very wide trees (thousands of items): at most ~4 MB of candidate text
        while len(cands) > 8 and sum(len(c) for c in cands) > 4_000_000: cands = cands[:len(cands) // 2]
        if not cands: break
        res = fails(cands)
        better = [c for c, f in zip(cands, res) if f and len(c) < len(cur)]
        if not better: break
        cur = better[0]
    return cur
