#!/bin/sh
# Offline setup after a fresh restore: build the harness (default configuration) and the Lean targets the checks use (driver + every property module with its imports).
set -e
cd /verif/harness && CARGO_NET_OFFLINE=true cargo build --offline --release -q && cargo build --offline -q && cargo build --offline -q --profile relchecked && cargo build --offline -q --release --features zero_based_strings --target-dir target-zero && cargo build --offline -q --profile relchecked --features zero_based_strings --target-dir target-zero
cd /verif/lean && lake build $(python3 /verif/tools/targets.py)
