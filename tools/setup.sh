#!/bin/sh
# Offline setup after a fresh restore: build the harness (default configuration) and the whole Lean project.
set -e
cd /verif/harness && CARGO_NET_OFFLINE=true cargo build --offline --release -q
cd /verif/lean && lake build
