#!/usr/bin/env python3
"""Prints the markdown table of DESIGN.md 15.5 from /verif/seeded/*/meta.json."""
import json, glob, os
rows = []
for d in sorted(glob.glob('/verif/seeded/*')):
    if not os.path.exists(os.path.join(d, 'meta.json')): continue
    m = json.load(open(os.path.join(d, 'meta.json')))
    det = m.get('detection', {})
    caught = [f"{p}{'' if 'no-failing-input-found' not in (r.get('violation') or '') else '°'}" for p, r in det.items() if r.get('violation')]
    missed = [p for p, r in det.items() if not r.get('violation') and r.get('exit') == 0]
    ver = m.get('verification', {})
    rows.append((os.path.basename(d), m.get('property', '?'), (m.get('summary') or '').replace('|', '/')[:150], (m.get('needs') or '').replace('|', '/').replace('\n', ' ')[:170],
                 'yes' if ver.get('ok') else ('?' if not ver else 'NO'), ', '.join(caught) or '—', ', '.join(missed) or ''))
print('| seeded change | property | what it changes | needs | confirmed | caught by (° = via broken tie, no failing input produced) | not caught by |')
print('|---|---|---|---|---|---|---|')
for r in rows: print('| ' + ' | '.join(r) + ' |')
