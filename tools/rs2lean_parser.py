#!/usr/bin/env python3
"""
rs2lean_parser.py — translation of `impl Compiler` (src/compiler.rs, the Pratt parser) into Lean, on every check run, from the CURRENT
source text.  Output: SlacModel/Generated/SrcParser.lean.  SlacProps/C01Parser.lean proves that the hand-written parser model
(SlacModel/Parser.lean: parsePrec / doPrefix / infixLoop / doInfix / exprList / parse), about which every C01 / C07 parser theorem is
stated, IS this generated function (for every fuel, token list and cursor).

How the Rust is read (the trusted part; everything else is mechanical):
  * `Compiler { tokens, current }`: `tokens` is never assigned after construction (checked: any assignment to it is `unrecognised`), so it
    is a fixed parameter `toks`; `self.current` is the state of the monad `PM` of SlacModel/SrcParserPrelude.lean (state + the compile
    outcomes ok / err / outOfFuel / panic).  Reading it is `getCur`, assigning it `setCur`.
  * statements run in order; `e?` and a method call in value position are monadic binds at the point where Rust evaluates them
    (arguments left to right, receiver first); `Ok(x)` is `pure x`, `Err(e)` is `throwE e`, `return e` ends the function;
    `x.ok_or(e)` is `okOr x e`;
  * ownership is erased (`&x`, `*x`, `.clone()`, `Box::new(x)` are `x`); `usize` is `Nat` and `a - b` on it is `usub a b`, which is the
    `panic` outcome when `b > a` (what a build with overflow checks does; a release build would wrap to an index no `Vec` has);
  * the methods listed in FUEL are the functions of the generated `mutual` block and spend one unit of fuel per call, as does every
    iteration of a `while` loop (a loop becomes a recursive function over the locals it assigns); every other method is INLINED at its
    call sites, with arguments that are constants (`&Token::RightParen`) substituted into the body.  Recursion through inlined methods
    only is `unrecognised`;
  * `a == b` / `a != b` where one side is a constant built from unit variants (`Some(&Token::Comma)`, `&Token::RightParen`) is a pattern
    match on the other side (derived `PartialEq` on a unit variant); any other equality test is `unrecognised`;
  * `Precedence` values are numbered by their position in `enum Precedence` (as in Generated/Grammar.lean); `Precedence::from(t)`,
    `.next()` and `Operator::try_from(t)` are the tables `tokenPrec`, `precNext`, `tokenOperator` of Generated/Grammar.lean (translated
    from src/token.rs and src/operator.rs by tools/translate.py in the same run), the last with the error `TokenNotAnOperator(t)` that
    the fall-through arm of `try_from` constructs (checked in the source text).
Anything else raises `Unrecognised`: the file is not written and SlacProps/C01Parser is left out of that run.
"""
import os, sys, re
sys.path.insert(0, os.path.dirname(os.path.abspath(__file__)))
from rsparse import Unrecognised, find_fn, strip_tests
from rs2lean import CTORS, lc

FUEL = ['parse_precedence', 'do_prefix', 'do_infix']
LEAN_KEYWORDS = {'end', 'from', 'at', 'then', 'else', 'do', 'fun', 'match', 'with', 'if', 'let', 'have', 'show', 'by', 'in', 'open', 'where',
                 'namespace', 'section', 'variable', 'def', 'theorem', 'instance', 'structure', 'class', 'for', 'return', 'mut', 'try', 'catch'}
TYPES = {'Expression': 'Expr N', 'Vec <Expression>': 'List (Expr N)', 'Vec<Expression>': 'List (Expr N)', 'Precedence': 'Nat', '&Token': 'Token N',
         'Token': 'Token N', 'Operator': 'Op', 'usize': 'Nat', 'bool': 'Bool', '()': 'Unit', 'Option <&Token>': 'Option (Token N)', '&Precedence': 'Nat'}

def ident(n): return f'«{n}»' if n in LEAN_KEYWORDS else n

def lean_type(t):
    t = t.strip()
    m = re.match(r'^Result\s*<(.*)>$', t)
    if m: t = m.group(1).strip()
    if t not in TYPES: raise Unrecognised(f'type {t}')
    return TYPES[t]

def is_result(t): return t.strip().startswith('Result')

def strip_refs(e):
    while True:
        if e[0] == 'unop' and e[1] in ('&', '*'): e = e[2]
        elif e[0] == 'mcall' and e[2] in ('clone', 'as_ref', 'cloned', 'to_owned') and not e[4]: e = e[1]
        elif e[0] == 'call' and e[1] == ('path', ['Box', 'new']) and len(e[2]) == 1: e = e[2][0]
        else: return e

def paths_in(e, acc):
    """local names mentioned anywhere in an AST"""
    if isinstance(e, tuple):
        if len(e) == 2 and e[0] == 'path' and len(e[1]) == 1: acc.add(e[1][0])
        for x in e: paths_in(x, acc)
    elif isinstance(e, list):
        for x in e: paths_in(x, acc)
    return acc

class Cx:
    def __init__(self, fuel, owner, subst, locals_, ret_result):
        self.fuel = fuel; self.owner = owner; self.subst = dict(subst); self.locals = list(locals_); self.ret_result = ret_result; self.let_types = {}
    def child(self, **kw):
        c = Cx(self.fuel, self.owner, self.subst, self.locals, self.ret_result); c.let_types = self.let_types
        for k, v in kw.items(): setattr(c, k, v)
        return c
    def add_local(self, name, ty):
        self.locals = [(n, t) for n, t in self.locals if n != name] + [(name, ty)]
        self.subst.pop(name, None)
    def type_of(self, name):
        for n, t in self.locals:
            if n == name: return t
        return None

class Tx:
    def __init__(self, src, prec_names, token_units, token_payload):
        self.src = strip_tests(src); self.prec = prec_names; self.units = token_units; self.payload = token_payload
        self.cache = {}; self.aux = []; self.inlining = []; self.tmp = 0; self.loops = {}
        if re.search(r'self\s*\.\s*tokens\s*(=[^=]|\.\s*(push|pop|clear|insert|remove|truncate|swap|iter_mut|retain|drain)\b)', self.src):
            raise Unrecognised('self.tokens is modified')
    def fn(self, name):
        if name not in self.cache: self.cache[name] = find_fn(self.src, name, after='impl Compiler')
        return self.cache[name]
    def fresh(self, base='t'):
        self.tmp += 1; return f'{base}{self.tmp}'

    # ---- constants ---------------------------------------------------------------------------------------------------
    def resolve(self, e, cx):
        e = strip_refs(e)
        if e[0] == 'path' and len(e[1]) == 1 and e[1][0] in cx.subst: return cx.subst[e[1][0]]
        return e
    def const_pat(self, e, cx):
        """a constant made of unit variants -> Lean pattern text, else None"""
        e = self.resolve(e, cx)
        if e[0] == 'path' and len(e[1]) == 2 and e[1][0] == 'Token' and e[1][1] in self.units: return '.' + lc(e[1][1])
        if e[0] == 'path' and e[1] == ['None']: return 'none'
        if e[0] == 'call' and e[1] == ('path', ['Some']) and len(e[2]) == 1:
            inner = self.const_pat(e[2][0], cx)
            return f'some {inner}' if inner else None
        return None

    # ---- patterns ----------------------------------------------------------------------------------------------------
    def pat(self, p, cx):
        """-> (text, [(bound name, type or None)])"""
        k = p[0]
        if k == 'pwild': return '_', []
        if k == 'pref': return self.pat(p[1], cx)
        if k == 'pbind': return ident(p[1]), [(p[1], None)]
        if k == 'ppath':
            path = p[1]
            if path == ['None']: return 'none', []
            if len(path) == 2 and path[0] == 'Token' and path[1] in self.units: return '.' + lc(path[1]), []
            raise Unrecognised(f'pattern path {path}')
        if k == 'ptuplestruct':
            path, ps = p[1], p[2]
            if path == ['Some'] and len(ps) == 1:
                t, b = self.pat(ps[0], cx); return f'some {self.ppar(t)}', b
            if len(path) == 2 and path[0] == 'Token' and path[1] in self.payload and len(ps) == 1:
                t, b = self.pat(ps[0], cx)
                b = [(n, ty or {'Literal': 'Value N', 'Identifier': 'Str'}.get(path[1])) for n, ty in b]
                return f'.{lc(path[1])} {self.ppar(t)}', b
            raise Unrecognised(f'pattern {path}')
        if k == 'pstruct':
            path, fs, rest = p[1], p[2], p[3]
            key = tuple(path)
            if key in CTORS and path[0] == 'Expression':
                ctor, order, tys = CTORS[key]; given = dict(fs); texts, binds = [], []
                for fld, ty in zip(order, tys):
                    if fld in given:
                        t, b = self.pat(given[fld], cx); texts.append(self.ppar(t))
                        binds += [(n, tt or {'expr': 'Expr N', 'exprs': 'List (Expr N)', 'str': 'Str', 'op': 'Op', 'value': 'Value N'}[ty]) for n, tt in b]
                    elif rest: texts.append('_')
                    else: raise Unrecognised(f'field {fld} missing in pattern')
                return (ctor + ' ' + ' '.join(texts)).strip(), binds
            raise Unrecognised(f'struct pattern {path}')
        raise Unrecognised(f'pattern {k}')
    def ppar(self, t): return f'({t})' if ' ' in t else t

    # ---- values: (binds, text) -----------------------------------------------------------------------------------------
    def par(self, t): return t if re.match(r'^[\w.«»\[\]?]+$', t) or (t.startswith('(') and t.endswith(')') and self.balanced(t)) else f'({t})'
    def balanced(self, t):
        d = 0
        for i, ch in enumerate(t):
            if ch == '(': d += 1
            elif ch == ')':
                d -= 1
                if d == 0 and i != len(t) - 1: return False
        return True

    def value(self, e, cx):
        k = e[0]
        if k == 'unop' and e[1] in ('&', '*'): return self.value(e[2], cx)
        if k == 'unop' and e[1] == '!':
            b, t = self.value(e[2], cx); return b, f'(!{self.par(t)})'
        if k == 'path':
            path = e[1]
            if len(path) == 1:
                n = path[0]
                if n in cx.subst: return self.value(cx.subst[n], cx.child(subst={}))
                if n == 'None': return [], 'none'
                if cx.type_of(n) is None and n != 'self': raise Unrecognised(f'unknown name {n}')
                return [], ident(n)
            if path[0] == 'Precedence' and len(path) == 2 and path[1] in self.prec: return [], str(self.prec.index(path[1]))
            if path[0] == 'Token' and len(path) == 2 and path[1] in self.units: return [], f'(.{lc(path[1])} : Token N)'
            if path[0] == 'Error' and len(path) == 2: return [], f'(.{lc(path[1])} : CErr N)'
            raise Unrecognised(f'path {path}')
        if k == 'lit' and e[1] == 'num' and re.match(r'^\d+$', e[2]): return [], e[2]
        if k == 'lit' and e[1] == 'bool': return [], e[2]
        if k == 'tuple' and not e[1]: return [], '()'
        if k == 'macro' and e[1] == 'vec' and not e[2]: return [], '[]'
        if k == 'try' or (k == 'mcall' and e[1] == ('path', ['self'])):
            inner = e[1] if k == 'try' else e
            lines = self.action(inner, cx.child(ret_result=True) if k == 'try' else cx)
            v = self.fresh(); return self.bind_lines(v, lines), v
        if k == 'field' and e[1] == ('path', ['self']) and e[2] == 'current':
            v = self.fresh('c'); return [f'let {v} ← getCur'], v
        if k == 'call':
            f, args = e[1], e[2]
            if f == ('path', ['Box', 'new']) and len(args) == 1: return self.value(args[0], cx)
            if f == ('path', ['Some']) and len(args) == 1:
                b, t = self.value(args[0], cx); return b, f'(some {self.par(t)})'
            if f == ('path', ['Precedence', 'from']) and len(args) == 1:
                b, t = self.value(args[0], cx); return b, f'(Grammar.tokenPrec {self.par(t)})'
            if f[0] == 'path' and len(f[1]) == 2 and f[1][0] == 'Error':
                bs, ts = self.values(args, cx); return bs, f'(.{lc(f[1][1])} {" ".join(self.par(t) for t in ts)} : CErr N)'
            if f[0] == 'path' and len(f[1]) == 2 and f[1][0] == 'Token' and f[1][1] in self.payload:
                bs, ts = self.values(args, cx); return bs, f'(.{lc(f[1][1])} {" ".join(self.par(t) for t in ts)} : Token N)'
            raise Unrecognised(f'call {f}')
        if k == 'struct':
            key = tuple(e[1])
            if key in CTORS and e[1][0] == 'Expression':
                ctor, order, _ = CTORS[key]; given = dict(e[2])
                if set(given) != set(order): raise Unrecognised(f'fields of {e[1]}')
                # Rust evaluates the field initialisers in the order they are WRITTEN
                binds, texts = [], {}
                for fld, fe in e[2]:
                    b, t = self.value(fe, cx); binds += b; texts[fld] = t
                return binds, f'({ctor} {" ".join(self.par(texts[f]) for f in order)})'
            raise Unrecognised(f'struct {e[1]}')
        if k == 'mcall':
            recv, name, args = e[1], e[2], e[4]
            if name in ('clone', 'as_ref', 'cloned', 'to_owned') and not args: return self.value(recv, cx)
            if recv == ('field', ('path', ['self']), 'tokens'):
                if name == 'len' and not args: return [], 'toks.length'
                if name == 'get' and len(args) == 1:
                    b, t = self.value(args[0], cx); return b, f'toks[{t}]?'
                raise Unrecognised(f'tokens.{name}')
            if name == 'is_some_and' and len(args) == 1 and args[0][0] == 'closure' and len(args[0][1]) == 1:
                b, t = self.value(recv, cx); pt, pb = self.pat(args[0][1][0], cx)
                cb, ct = self.value(args[0][2], self.with_binds(cx, pb, 'Token N'))
                if cb: raise Unrecognised('effect inside a closure')
                return b, f'(match {t} with | some {self.ppar(pt)} => {ct} | none => false)'
            if name == 'map_or' and len(args) == 2 and args[1][0] == 'closure' and len(args[1][1]) == 1:
                b, t = self.value(recv, cx); db, dt = self.value(args[0], cx); pt, pb = self.pat(args[1][1][0], cx)
                cb, ct = self.value(args[1][2], self.with_binds(cx, pb, 'Token N'))
                if cb: raise Unrecognised('effect inside a closure')
                return b + db, f'(match {t} with | some {self.ppar(pt)} => {ct} | none => {dt})'
            if name == 'next' and not args:
                b, t = self.value(recv, cx)
                if not (t.startswith('(Grammar.tokenPrec') or (recv[0] == 'path' and cx.type_of(recv[1][0]) == 'Nat')): raise Unrecognised('.next() on a non-Precedence')
                return b, f'(Grammar.precNext {self.par(t)})'
            raise Unrecognised(f'method {name}')
        if k == 'binop':
            op, l, r = e[1], e[2], e[3]
            if op in ('==', '!='):
                cp = self.const_pat(r, cx); other = l
                if cp is None: cp = self.const_pat(l, cx); other = r
                if cp is None: raise Unrecognised('equality test against a non-constant')
                b, t = self.value(other, cx); txt = f'(match {t} with | {cp} => true | _ => false)'
                return b, (txt if op == '==' else f'(!{txt})')
            if op in ('&&', '||'):
                lb, lt = self.value(l, cx); rb, rt = self.value(r, cx)
                if rb: raise Unrecognised('effect on the right of a short-circuit operator')
                return lb, f'({lt} {op} {rt})'
            lb, lt = self.value(l, cx); rb, rt = self.value(r, cx)
            if op in ('<', '<=', '>', '>='):
                return lb + rb, f'(decide ({lt} {dict(zip(("<", "<=", ">", ">="), ("<", "≤", ">", "≥")))[op]} {rt}))'
            if op == '+': return lb + rb, f'({lt} + {rt})'
            if op == '-':
                v = self.fresh('d'); return lb + rb + [f'let {v} ← usub {self.par(lt)} {self.par(rt)}'], v
            raise Unrecognised(f'operator {op}')
        raise Unrecognised(f'expression {k}')
    def values(self, es, cx):
        binds, texts = [], []
        for x in es:
            b, t = self.value(x, cx); binds += b; texts.append(t)
        return binds, texts
    def with_binds(self, cx, binds, default_ty):
        c = cx.child()
        for n, ty in binds: c.add_local(n, ty or default_ty)
        return c

    # ---- actions: a list of lines forming the body of a `do` block ---------------------------------------------------------
    def emb(self, lines):
        if len(lines) == 1: return [lines[0]]
        return ['(do'] + ['  ' + l for l in lines[:-1]] + ['  ' + lines[-1] + ')']
    def bind_lines(self, v, lines):
        if len(lines) == 1: return [f'let {v} ← {lines[0]}']
        em = self.emb(lines); return [f'let {v} ← {em[0]}'] + ['  ' + l for l in em[1:]]
    def nest(self, head, lines):
        """`head` followed by an action as an indented sub-block"""
        return [head] + ['  ' + l for l in self.emb(lines)]

    def action(self, e, cx):
        k = e[0]
        if k == 'block': return self.seq(e[1], e[2], cx)
        if k == 'return':
            if e[1] is None: return ['pure ()']
            return self.action(e[1], cx)
        if k == 'call' and e[1] == ('path', ['Ok']) and len(e[2]) == 1:
            b, t = self.value(e[2][0], cx); return b + [f'pure {self.par(t)}']
        if k == 'call' and e[1] == ('path', ['Err']) and len(e[2]) == 1:
            b, t = self.value(e[2][0], cx); return b + [f'throwE {self.par(t)}']
        if k == 'call' and e[1] == ('path', ['Operator', 'try_from']) and len(e[2]) == 1:
            b, t = self.value(e[2][0], cx); return b + [f'okOr (Grammar.tokenOperator {self.par(t)}) (.tokenNotAnOperator {self.par(t)})']
        if k == 'mcall' and e[1] == ('path', ['self']):
            name, args = e[2], e[4]
            if name in FUEL:
                bs, ts = self.values(args, cx)
                return bs + [' '.join([name, cx.fuel, 'toks'] + [self.par(t) for t in ts])]
            return self.inline(name, args, cx)
        if k == 'mcall' and e[2] == 'ok_or' and len(e[4]) == 1:
            b, t = self.value(e[1], cx); eb, et = self.value(e[4][0], cx)
            return b + eb + [f'okOr {self.par(t)} {self.par(et)}']
        if k == 'match':
            b, t = self.value(e[1], cx); out = b + [f'match {t} with']
            for pats, guard, body in e[2]:
                if guard is not None: raise Unrecognised('guard in a parser match')
                texts, binds = [], None
                for p in pats:
                    pt, pb = self.pat(p, cx); texts.append(pt)
                    if binds is not None and [n for n, _ in pb] != [n for n, _ in binds]: raise Unrecognised('alternatives bind different names')
                    binds = pb
                out += self.nest('| ' + ' | '.join(texts) + ' =>', self.action(body, self.with_binds(cx, binds, 'Token N')))
            return out
        if k == 'if':
            if e[3] is None:
                if cx.ret_result: raise Unrecognised('`if` without `else` in result position')
                b, t = self.value(e[1], cx)
                return b + self.nest(f'if {t} then', self.unit_block(e[2], cx)) + self.nest('else', ['pure ()'])
            b, t = self.value(e[1], cx)
            return b + self.nest(f'if {t} then', self.action(e[2], cx)) + self.nest('else', self.action(e[3], cx))
        if k == 'iflet':
            if e[4] is None: raise Unrecognised('`if let` without `else` in result position')
            b, t = self.value(e[2], cx); pt, pb = self.pat(e[1], cx)
            return b + [f'match {t} with'] + self.nest(f'| {pt} =>', self.action(e[3], self.with_binds(cx, pb, 'Token N'))) + self.nest('| _ =>', self.action(e[4], cx))
        if cx.ret_result: raise Unrecognised(f'result expression {k}')
        b, t = self.value(e, cx); return b + [f'pure {self.par(t)}']

    def ends_with_return(self, blk):
        stmts, tail = blk[1], blk[2]
        if tail is not None: return tail[0] == 'return'
        return bool(stmts) and stmts[-1][0] == 'expr' and stmts[-1][1][0] == 'return'

    def assigned_locals(self, e, acc):
        if isinstance(e, tuple):
            if e and e[0] == 'assign' and e[1][0] == 'path' and len(e[1][1]) == 1: acc.add(e[1][1][0])
            if e and e[0] == 'mcall' and e[2] in ('push', 'pop', 'clear', 'insert', 'extend') and e[1][0] == 'path' and len(e[1][1]) == 1: acc.add(e[1][1][0])
            if e and e[0] == 'let': return acc          # a `let` declares; handled by scoping
            for x in e: self.assigned_locals(x, acc)
        elif isinstance(e, list):
            for x in e: self.assigned_locals(x, acc)
        return acc

    def seq(self, stmts, tail, cx):
        cx = cx.child(); out = []
        for i, st in enumerate(stmts):
            rest = stmts[i + 1:]
            if st[0] == 'let':
                _, p, e = st
                if p[0] != 'pbind': raise Unrecognised('destructuring let')
                name = p[1]; ty = self.infer_type(name, e, cx)
                if e[0] == 'try' or (e[0] == 'mcall' and e[1] == ('path', ['self'])):
                    inner = e[1] if e[0] == 'try' else e
                    out += self.bind_lines(ident(name), self.action(inner, cx.child(ret_result=True) if e[0] == 'try' else cx))
                else:
                    b, t = self.value(e, cx); out += b + [f'let {ident(name)} := {t}']
                cx.add_local(name, ty); continue
            e = st[1]
            if e[0] == 'return': return out + self.action(e, cx)
            if e[0] == 'assign':
                lhs, rhs = e[1], e[2]
                if lhs == ('field', ('path', ['self']), 'current'):
                    b, t = self.value(rhs, cx); out += b + [f'setCur {self.par(t)}']; continue
                if lhs[0] == 'path' and len(lhs[1]) == 1 and cx.type_of(lhs[1][0]):
                    name = lhs[1][0]
                    if rhs[0] == 'try' or (rhs[0] == 'mcall' and rhs[1] == ('path', ['self'])):
                        inner = rhs[1] if rhs[0] == 'try' else rhs
                        out += self.bind_lines(ident(name), self.action(inner, cx.child(ret_result=True) if rhs[0] == 'try' else cx))
                    else:
                        b, t = self.value(rhs, cx); out += b + [f'let {ident(name)} := {t}']
                    continue
                raise Unrecognised(f'assignment to {lhs}')
            if e[0] == 'mcall' and e[2] == 'push' and e[1][0] == 'path' and len(e[1][1]) == 1 and cx.type_of(e[1][1][0]) and len(e[4]) == 1:
                name = e[1][1][0]; b, t = self.value(e[4][0], cx); out += b + [f'let {ident(name)} := {ident(name)} ++ [{t}]']; continue
            if e[0] == 'if' and e[3] is None:
                if self.ends_with_return(e[2]):
                    # `if c { …; return x; }` followed by the rest of the block
                    b, t = self.value(e[1], cx)
                    return out + b + self.nest(f'if {t} then', self.action(e[2], cx)) + self.nest('else', self.seq(rest, tail, cx))
                if self.assigned_locals(e[2], set()) & {n for n, _ in cx.locals}: raise Unrecognised('`if` without `else` assigns a local')
                b, t = self.value(e[1], cx)
                out += b + self.nest(f'if {t} then', self.unit_block(e[2], cx)) + self.nest('else', ['pure ()']); continue
            if e[0] in ('while', 'whilelet'):
                out += self.loop(e, cx); continue
            if e[0] == 'try' or (e[0] == 'mcall' and e[1] == ('path', ['self'])):
                inner = e[1] if e[0] == 'try' else e
                lines = self.action(inner, cx.child(ret_result=True) if e[0] == 'try' else cx)
                em = self.emb(lines); out += em; continue
            raise Unrecognised(f'statement {e[0]}')
        if tail is None:
            if cx.ret_result: raise Unrecognised('block without a result')
            return out + ['pure ()']
        return out + self.action(tail, cx)

    def unit_block(self, blk, cx):
        stmts = blk[1] + ([('expr', blk[2])] if blk[2] is not None else [])                   # a unit-valued last statement written without `;`
        return self.seq(stmts, None, cx.child(ret_result=False))

    def infer_type(self, name, e, cx):
        lt = cx.let_types.get(name)
        if lt: return lean_type(lt)
        inner = e[1] if e[0] == 'try' else e
        if inner[0] == 'mcall' and inner[1] == ('path', ['self']): return lean_type(self.fn(inner[2])['ret'])
        if inner[0] == 'call' and inner[1] == ('path', ['Operator', 'try_from']): return 'Op'
        if inner[0] == 'struct' and inner[1][0] == 'Expression': return 'Expr N'
        return 'unknown'

    # ---- loops -----------------------------------------------------------------------------------------------------------
    def loop(self, e, cx):
        cond_parts = (e[1],) if e[0] == 'while' else (e[1], e[2]); body = e[-1]
        if body[2] is not None: body = ('block', body[1] + [('expr', body[2])], None)       # a unit-valued last statement written without `;`
        local_names = [n for n, _ in cx.locals]
        muts = [n for n in local_names if n in self.assigned_locals(body, set())]
        used = paths_in(list(cond_parts) + [body], set())
        caps = [n for n in local_names if n in used and n not in muts]
        for n in muts + caps:
            if cx.type_of(n) in (None, 'unknown'): raise Unrecognised(f'type of loop variable {n}')
        self.loops[cx.owner] = self.loops.get(cx.owner, 0) + 1
        name = f'{cx.owner}_loop{self.loops[cx.owner]}'
        ret_ty = 'Unit' if not muts else ' × '.join(cx.type_of(n) for n in muts)
        result = 'pure ()' if not muts else ('pure ' + (ident(muts[0]) if len(muts) == 1 else '(' + ', '.join(ident(n) for n in muts) + ')'))
        inner = cx.child(fuel='f', ret_result=False)
        again = ' '.join([name, 'f', 'toks'] + [ident(n) for n in caps + muts])
        body_lines = self.seq(body[1], None, inner)
        assert body_lines[-1] == 'pure ()'
        body_lines = body_lines[:-1] + [again]
        if e[0] == 'while':
            b, t = self.value(e[1], inner)
            lines = b + self.nest(f'if {t} then', body_lines) + self.nest('else', [result])
        else:
            b, t = self.value(e[2], inner); pt, pb = self.pat(e[1], inner)
            binner = self.with_binds(inner, pb, 'Token N')
            body_lines = self.seq(body[1], None, binner)[:-1] + [again]
            lines = b + [f'match {t} with'] + self.nest(f'| {pt} =>', body_lines) + self.nest('| _ =>', [result])
        sig_tys = ['Nat', 'List (Token N)'] + [cx.type_of(n) for n in caps + muts]
        zero = ', '.join(['0'] + ['_'] * (len(sig_tys) - 1))
        succ = ', '.join(['f+1', 'toks'] + [ident(n) for n in caps + muts])
        self.aux.append(f'def {name} : ' + ' → '.join(sig_tys) + f' → PM N ({ret_ty})\n  | {zero} => outOfFuel\n  | {succ} => do\n' + '\n'.join('    ' + l for l in lines))
        call = ' '.join([name, cx.fuel, 'toks'] + [ident(n) for n in caps + muts])
        if not muts: return [call]
        return [f'let {ident(muts[0]) if len(muts) == 1 else "(" + ", ".join(ident(n) for n in muts) + ")"} ← {call}']

    # ---- inlining -----------------------------------------------------------------------------------------------------------
    def inline(self, name, args, cx):
        if name in self.inlining: raise Unrecognised(f'recursion through the inlined method {name}')
        f = self.fn(name); params = [p for p in f['params'] if p[0] != 'self']
        if len(params) != len(args): raise Unrecognised(f'arity of {name}')
        out = []; sub = {}; new_locals = []
        for (p, ty), a in zip(params, args):
            r = self.resolve(a, cx)
            if self.const_pat(r, cx) is not None or (r[0] == 'path' and len(r[1]) == 2 and r[1][0] in ('Precedence',)):
                sub[p] = r; continue
            b, t = self.value(a, cx); out += b
            if t != ident(p): out.append(f'let {ident(p)} := {t}')
            new_locals.append((p, lean_type(ty)))
        inner = Cx(cx.fuel, cx.owner or name, sub, new_locals, is_result(f['ret']))        # loops are named after the FUEL function they end up in
        inner.let_types = f.get('let_types', {})
        self.inlining.append(name)
        try: out += self.seq(f['body'][1], f['body'][2], inner)
        finally: self.inlining.pop()
        return out

    # ---- the functions of the mutual block -----------------------------------------------------------------------------------
    def fuel_fn(self, name):
        f = self.fn(name); params = [p for p in f['params'] if p[0] != 'self']
        cx = Cx('f', name, {}, [(p, lean_type(ty)) for p, ty in params], is_result(f['ret'])); cx.let_types = f.get('let_types', {})
        lines = self.seq(f['body'][1], f['body'][2], cx)
        sig = ['Nat', 'List (Token N)'] + [lean_type(ty) for _, ty in params]
        zero = ', '.join(['0'] + ['_'] * (len(sig) - 1)); succ = ', '.join(['f+1', 'toks'] + [ident(p) for p, _ in params])
        return f'def {name} : ' + ' → '.join(sig) + f' → PM N ({lean_type(f["ret"])})\n  | {zero} => outOfFuel\n  | {succ} => do\n' + '\n'.join('    ' + l for l in lines)

def enum_variants(src, name):
    m = re.search(r'\benum\s+' + name + r'\s*\{(.*?)\n\}', strip_tests(src), re.S)
    if not m: raise Unrecognised(f'enum {name} not found')
    body = re.sub(r'//[^\n]*', '', m.group(1)); body = re.sub(r'#\[[^\]]*\]', '', body)
    out = []
    for part in re.split(r',(?![^()]*\))', body):
        part = part.strip()
        if not part: continue
        mm = re.match(r'^(\w+)\s*(\((.*)\))?$', part, re.S)
        if not mm: raise Unrecognised(f'variant {part!r} of {name}')
        out.append((mm.group(1), mm.group(3)))
    return out

def gen_parser(srcdir):
    comp = open(os.path.join(srcdir, 'compiler.rs')).read(); tok = open(os.path.join(srcdir, 'token.rs')).read(); opr = open(os.path.join(srcdir, 'operator.rs')).read()
    prec = [v for v, payload in enum_variants(tok, 'Precedence')]
    tv = enum_variants(tok, 'Token'); units = [v for v, p in tv if p is None]; payload = [v for v, p in tv if p is not None]
    if not re.search(r'_\s*=>\s*Err\s*\(\s*Error::TokenNotAnOperator\s*\(\s*value\.clone\(\)\s*\)\s*\)', strip_tests(opr)):
        raise Unrecognised('fall-through arm of Operator::try_from')
    # `compile_ast`: the initial state
    ca = find_fn(strip_tests(comp), 'compile_ast', after='impl Compiler'); st, tail = ca['body'][1], ca['body'][2]
    ok = (len(st) == 1 and st[0][0] == 'let' and st[0][1][0] == 'pbind' and st[0][2][0] == 'struct' and st[0][2][1] == ['Compiler'] and tail is not None
          and tail[0] == 'mcall' and tail[1] == ('path', [st[0][1][1]]) and not tail[4])
    if not ok: raise Unrecognised('shape of compile_ast')
    fields = dict(st[0][2][2]); entry = tail[2]
    if fields.get('tokens') != ('path', ['tokens']) or fields.get('current', ('x',))[0] != 'lit' or set(fields) != {'tokens', 'current'}: raise Unrecognised('initial Compiler state')
    init = fields['current'][2]
    tx = Tx(comp, prec, units, payload)
    defs = [tx.fuel_fn(n) for n in FUEL]
    top = Cx('fuel', entry, {}, [], True)
    entry_lines = tx.inline(entry, [], top.child(owner=''))
    mutual = tx.aux + defs
    head = ('/-\n  SlacModel.Generated.SrcParser — GENERATED on every check run by /verif/tools/rs2lean_parser.py from the CURRENT text of\n'
            '  /repo/src/compiler.rs (`impl Compiler`).  Do not edit.  SlacProps/C01Parser.lean proves that SlacModel/Parser.lean is this function.\n'
            '  Methods in the mutual block: ' + ', '.join(FUEL) + ' and the `while` loops; every other method is inlined at its call sites.\n-/\n'
            'import SlacModel.SrcParserPrelude\nimport SlacModel.Generated.Grammar\nset_option autoImplicit false\nnamespace Slac.Generated.SrcParser\n'
            'open Slac Slac.SrcParser Slac.Generated\nvariable {N : Type}\n\n')
    body = 'mutual\n' + '\n'.join(mutual) + '\nend\n\n'
    body += f'/-- `Compiler::{entry}` -/\ndef {entry} (fuel : Nat) (toks : List (Token N)) : PM N (Expr N) := do\n' + '\n'.join('  ' + l for l in entry_lines) + '\n\n'
    body += (f'/-- `Compiler::compile_ast`: `Compiler {{ tokens, current: {init} }}.{entry}()` -/\n'
             f'def compile_ast (fuel : Nat) (toks : List (Token N)) : COut N (Expr N) := run ({entry} fuel toks) {init}\n')
    return head + body + '\nend Slac.Generated.SrcParser\n'

if __name__ == '__main__':
    a = sys.argv[1:]
    src = a[a.index('--src') + 1] if '--src' in a else '/repo/src'
    try: print(gen_parser(src))
    except Unrecognised as e: print('unrecognised:', e); sys.exit(3)
