"""Per-property configuration of tools/check.py: theorem modules, correspondence streams, views."""
Q = 'quick'; T = 'thorough'
def n(q, t): return {Q: q, T: t}

FLOAT_TB = "core Lean's claim that compiled Float operations implement Float.Model; bit-level definitions of trunc/fmod/casts/parse/Display in SlacModel/Num.lean tied by the `num` stream"

PROPS = {
 'C03': dict(
    modules=['SlacProps.C03'],
    streams=[
        dict(name='evaltable', n=n(0, 0), view='result'),
        dict(name='eval', n=n(40000, 1500000), view='result'),
        dict(name='evalill', n=n(30000, 1000000), view='result'),
        dict(name='cmp', n=n(40000, 1500000), oracle='none'),
        dict(name='num', n=n(40000, 1500000), oracle='none'),
    ],
    rule='evaltable: every operator x 27 operands (all kinds, undefined, failing) x 27 in binary position, + unary and ternary positions, enumerated; '
         'eval/evalill: random well-/ill-formed trees (depth<=4) x random environments; cmp: random nested value pairs; num: numeric primitives on boundary+random bit patterns. '
         'non-trivial = tree has an operator/call/array node; distinct by md5 of the protocol line',
    trusted=[FLOAT_TB, 'SlacModel/Interp.lean is a hand-written description of src/interpreter.rs + src/value.rs (tied by streams, not derived)'],
    assumptions=['environment functions are history independent (Lean functions)'],
 ),
 'C04': dict(
    modules=['SlacProps.C04'],
    streams=[
        dict(name='evaltable', n=n(0, 0), view='full'),
        dict(name='eval', n=n(40000, 1500000), view='full'),
        dict(name='evalill', n=n(30000, 1000000), view='full'),
    ],
    rule='same trees as C03, executed through a recording Environment; the compared line is result + the sequence of variable()/call() events with argument values; '
         'non-trivial = tree has an operator/call/array node',
    trusted=[FLOAT_TB, 'the recording Environment of the harness (harness/src/env.rs) logs exactly the variable() and call() invocations'],
 ),
 'C12': dict(
    modules=['SlacProps.C12'],
    streams=[dict(name='json', n=n(60000, 2000000), oracle='none', laws=['json_same'])],
    rule='json: source-expressible, optimizer-shaped and arbitrary ill-formed trees (depth<=3) with literals from the boundary pool '
         '(random bit patterns, subnormals, -0, 2^53+1, 1e300, NaN, infinities) and Unicode string pools; the canonical JSON value is compared with the model, '
         'and both round-trip routes (serde_json::Value, text) are checked bit-exactly on the real crate. non-trivial = tree has an operator/call/array node',
    trusted=['serde_json (built with float_roundtrip) prints and parses the JSON data model faithfully; serde derive implements the documented internally-tagged representation'],
 ),
}
