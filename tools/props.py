"""Per-property configuration of tools/check.py: theorem modules, correspondence streams, views."""
Q = 'quick'; T = 'thorough'
def n(q, t): return {Q: q, T: t}

FLOAT_TB = "core Lean's claim that compiled Float operations implement Float.Model; bit-level definitions of trunc/fmod/casts/parse/Display in SlacModel/Num.lean tied by the `num` stream"

TIME_FNS = 'date_from_rfc2822,date_from_rfc3339,date_to_rfc2822,date_to_rfc3339,date_to_string,time_to_string,string_to_date,string_to_time,string_to_datetime,inc_month,encode_date,encode_time,year,day_of_week'

PROPS = {
 'C03': dict(
    srcgen={'SrcOrder': 'SlacProps.C13Source', 'SrcInterp': 'SlacProps.C04Source'}, srcspec=True,
    modules=['SlacProps.C03', 'SlacProps.C03Float', 'SlacProps.C03Source'], translate=True,
    streams=[
        dict(name='evaltable', n=n(0, 0), view='result'),
        dict(name='eval', n=n(40000, 1500000), view='result', laws=['eval_side']),
        dict(name='evalill', n=n(30000, 1000000), view='result', laws=['eval_side']),
        dict(name='evalcs', n=n(15000, 500000), view='result'),
        dict(name='spine:eval', n=n(1500, 40000), view='result'),
        dict(name='wide:eval', n=n(16, 160), view='result', case_timeout=60.0),
        dict(name='vchain:eval', n=n(16, 120), view='result', case_timeout=120.0),
        dict(name='script', n=n(20000, 500000), view='script_exec', oracle='none'),
        # the ordering / equality table of the language definition IS the model's Value.cmp / Value.eq (Appendix A): a disagreement is a failing input
        dict(name='cmp', n=n(40000, 1500000), oracle='model'),
        dict(name='num', n=n(40000, 1500000), oracle='none'),
    ],
    rule='evaltable: every operator x 27 operands (all kinds, undefined, failing) x 27 in binary position, + unary and ternary positions, enumerated; '
         'eval/evalill: random well-/ill-formed trees (depth<=4) x random environments; cmp: random nested value pairs; num: numeric primitives on boundary+random bit patterns. '
         'non-trivial = tree has an operator/call/array node; distinct by md5 of the protocol line',
    trusted=[FLOAT_TB, 'SlacModel/Interp.lean is a hand-written description of src/interpreter.rs + src/value.rs (tied by streams, not derived)'],
    assumptions=['environment functions are history independent (Lean functions)'],
 ),
 'C04': dict(
    srcgen={'SrcInterp': 'SlacProps.C04Source'},
    modules=['SlacProps.C04', 'SlacProps.C03Source'], translate=True,
    streams=[
        dict(name='evaltable', n=n(0, 0), view='full'),
        dict(name='eval', n=n(40000, 1500000), view='full', laws=['eval_side']),
        dict(name='evalill', n=n(30000, 1000000), view='full', laws=['eval_side']),
        # a CASE-SENSITIVE host environment (the trait does not prescribe case folding): names exactly as written reach the environment, once
        dict(name='evalcs', n=n(15000, 500000), view='full'),
        dict(name='spine:eval', n=n(1500, 40000), view='full'),
        dict(name='wide:eval', n=n(16, 160), view='full', case_timeout=60.0),
        dict(name='vchain:eval', n=n(16, 120), view='full', case_timeout=120.0),
    ],
    rule='same trees as C03, executed through a recording Environment; the compared line is result + the sequence of variable()/call() events with argument values; '
         'non-trivial = tree has an operator/call/array node',
    trusted=[FLOAT_TB, 'the recording Environment of the harness (harness/src/env.rs) logs exactly the variable() and call() invocations'],
 ),
 'C12': dict(
    modules=['SlacProps.C12', 'SlacProps.C12Text'],
    srcgen={'SrcSerde': 'SlacProps.C12Source'},
    streams=[dict(name='json', n=n(60000, 2000000), oracle='none', laws=['json_same']),
             dict(name='deep:json', n=n(1000, 50000), oracle='none', laws=['json_same']),
             dict(name='spine:json', n=n(600, 20000), oracle='none', laws=['json_same']),
             dict(name='vdeep:json', n=n(400, 20000), oracle='none', laws=['json_same']),
             dict(name='wide:json', n=n(8, 48), oracle='none', laws=['json_same'], case_timeout=120.0)],
    rule='json: source-expressible, optimizer-shaped and arbitrary ill-formed trees (depth<=3) with literals from the boundary pool '
         '(random bit patterns, subnormals, -0, 2^53+1, 1e300, NaN, infinities) and Unicode string pools; the canonical JSON value is compared with the model, '
         'and both round-trip routes (serde_json::Value, text) are checked bit-exactly on the real crate. non-trivial = tree has an operator/call/array node',
    trusted=['serde_json (built with float_roundtrip) prints and parses the JSON data model faithfully; serde derive implements the documented internally-tagged representation'],
 ),
 'C01': dict(
    modules=['SlacProps.C01', 'SlacProps.C01Text', 'SlacProps.C01Source'], translate=True,
    srcgen={'SrcParser': 'SlacProps.C01Parser', 'SrcScanner': 'SlacProps.C02Scanner'}, capstones={'SlacProps.FrontSource': ['SrcParser', 'SrcScanner']},
    streams=[
        dict(name='parsekinds', n=n(4, 5), view='okfull', oracle='none'),
        dict(name='parse', n=n(40000, 1000000), view='okfull', oracle='none'),
        dict(name='rt', n=n(60000, 2000000), view='okfull', oracle='none', laws=['same']),
        dict(name='rr', n=n(40000, 1000000), view='okfull', oracle='none', laws=['same']),
        dict(name='compile', n=n(40000, 1000000), view='okfull', oracle='none'),
        dict(name='scanchars', n=n(0, 1), view='tmrange', oracle='none', laws=['scanrange'], expand='expand-scanrange', case_timeout=120.0),
    ],
    rule='parsekinds: ALL sequences of <=4 (quick) / <=5 (thorough) tokens over the 23 token kinds; parse: random token lists <=40; '
         'rt: random source-expressible trees (depth<=4) rendered minimal / fully parenthesised / with random extra parentheses, compiled by the crate and compared bit-exactly; '
         'rr: accepted random texts re-rendered minimally and recompiled; compile: text -> tree against scan+parse of the model. non-trivial: every case',
    trusted=['harness renderer (harness/src/lang.rs render) implements the documented precedence table; Unicode tables dumped from Rust std (SlacModel/UnicodeTables.lean)'],
 ),
 'C02': dict(
    modules=['SlacProps.C02', 'SlacProps.C02Float', 'SlacProps.C01Source'], translate=True,
    srcgen={'SrcScanner': 'SlacProps.C02Scanner', 'SrcParser': 'SlacProps.C01Parser'}, capstones={'SlacProps.FrontSource': ['SrcParser', 'SrcScanner']},
    streams=[
        dict(name='scanfrag', n=n(3, 4), view='okfull', oracle='none'),
        dict(name='scan', n=n(60000, 2000000), view='okfull', oracle='none'),
        dict(name='lay', n=n(40000, 1000000), view='full', oracle='none', laws=['same']),
        dict(name='num', n=n(40000, 1000000), oracle='none'),
        # ONE literal per case, judged by the model's scanner (proved: nearest double / exact contents): a disagreement is a failing input
        dict(name='numlit', n=n(12000, 300000), view='okfull', oracle='model'),
        dict(name='strlit', n=n(12000, 300000), view='okfull', oracle='model'),
        dict(name='compile', n=n(30000, 600000), view='okfull', oracle='none'),
        dict(name='scanchars', n=n(0, 1), view='tmrange', oracle='none', laws=['scanrange'], expand='expand-scanrange', case_timeout=120.0),
    ],
    rule='compile: the same random texts through slac::compile (the entry point scripts come in by) against scan + parse of the model; scanchars: EVERY Unicode scalar value (thorough; quick: the blocks U+0000-33FF, A000-ABFF, F900-10FFF, 1D000-1EFFF, E0000-E01FF) tokenized alone, next to a letter, a digit, `1.`, in a string, and substituted at every position of every keyword in lower and upper case (59 texts per code point), compared by digest per 256 code points and expanded to the single differing text on a mismatch; '
         'scanfrag: ALL sequences of <=3 (quick) / <=4 (thorough) fragments from a 32-fragment alphabet (digits, dot, letters, keywords in mixed case, quotes, braces, //, newline, operators, non-ASCII letter); '
         'scan: random texts (rendered trees with random layout, fragment soup, decimal renderings of random doubles, quoted Unicode strings, truncations, mutations, random code points); '
         'lay: token sequence rendered twice with different whitespace/comments/keyword case, both tokenized by the crate and compared bit-exactly; num: str::parse::<f64> against the exact decimal->double model',
    trusted=[FLOAT_TB, 'Unicode tables dumped from Rust std (SlacModel/UnicodeTables.lean); theorems hold for every CharClass satisfying AsciiOk'],
 ),
 'C05': dict(
    srcgen={'SrcOptimizer': 'SlacProps.C05Source'},
    modules=['SlacProps.C05'],
    streams=[
        dict(name='opt', n=n(40000, 1500000), view='opt_c05', oracle='none', laws=['c05']),
        dict(name='optill', n=n(20000, 500000), view='opt_c05', oracle='none', laws=['c05']),
        dict(name='spine:opt', n=n(1500, 40000), view='opt_c05', oracle='none', laws=['c05'], case_timeout=20.0),
        dict(name='chain:opt', n=n(100, 1500), view='opt_c05', oracle='none', laws=['c05'], case_timeout=30.0),
        dict(name='wide:opt', n=n(16, 80), view='opt_c05', oracle='none', laws=['c05'], case_timeout=120.0),
        dict(name='vchain:opt', n=n(16, 80), view='opt_c05', model=False, oracle='none', laws=['c05'], case_timeout=300.0),
        dict(name='script', n=n(20000, 500000), view='script_opt', oracle='none', laws=['script_c05']),
    ],
    rule='opt/optill: random trees (depth<=4) mixing foldable all-literal sub-trees, variables in several spellings, if_then calls with 2-4 arguments, pure and impure functions of all arity kinds, folds that fail midway; '
         'random environments binding about half of the variables. Compared: status, rewritten tree (also the partial tree of a failed run), execute before/after under the same environment. non-trivial = tree has an operator/call/array node',
    trusted=[FLOAT_TB],
    assumptions=['impure test functions are history independent; if_then, where bound, is the standard function'],
 ),
 'C06': dict(
    srcgen={'SrcOptimizer': 'SlacProps.C05Source'},
    modules=['SlacProps.C06'],
    streams=[
        dict(name='opt', n=n(40000, 1500000), view='opt_c06', oracle='none', laws=['c06'], case_timeout=20.0),
        dict(name='optill', n=n(20000, 500000), view='opt_c06', oracle='none', laws=['c06'], case_timeout=20.0),
        dict(name='spine:opt', n=n(1500, 40000), view='opt_c06', oracle='none', laws=['c06'], case_timeout=20.0),
        dict(name='chain:opt', n=n(100, 1500), view='opt_c06', oracle='none', laws=['c06'], case_timeout=30.0),
        dict(name='vchain:opt', n=n(16, 80), view='opt_c06', model=False, oracle='none', laws=['c06'], case_timeout=300.0),
    ],
    rule='same trees as C05 through a recording Environment. Compared: status, tree, the events optimize performed, whether a foldable node is left, re-optimisation, node counts; '
         'the falsifier inspects the real result structurally (foldable nodes by the property\'s own definition) and checks purity of every recorded event against the registered functions',
    trusted=[FLOAT_TB],
 ),
 'C07': dict(
    modules=['SlacProps.C07Parser', 'SlacProps.C07Scanner'], translate=True,
    srcgen={'SrcParser': 'SlacProps.C01Parser', 'SrcScanner': 'SlacProps.C02Scanner'}, capstones={'SlacProps.FrontSource': ['SrcParser', 'SrcScanner']},
    streams=[
        dict(name='scanfrag', n=n(3, 4), view='class', oracle='none', laws=['no_crash']),
        dict(name='parsekinds', n=n(4, 5), view='class', oracle='none', laws=['no_crash']),
        dict(name='compile', n=n(60000, 2000000), view='class', oracle='none', laws=['no_crash']),
        dict(name='compiledeep', n=n(2000, 20000), view='class', oracle='none', laws=['no_crash']),
        dict(name='parse', n=n(30000, 1000000), view='class', oracle='none', laws=['no_crash']),
        # the deep inputs again in a worker whose address space is limited to 16 MiB: a helper thread with a big stack, or a buffer sized by the
        # nesting depth, is refused by the OS there - compile must still answer with a tree or an error
        dict(name='lowmem:compiledeep', gen='compiledeep', n=n(1500, 20000), model=False, view='class', oracle='none', laws=['no_crash'], rlimit_as_mb=16),
        # random texts (comma-less lists, unbalanced brackets, ...) in a worker whose stderr is a full device and whose address space is small: a diagnostic
        # written with eprintln!, a helper thread, a big scratch buffer fail AT THAT POINT - compile must still answer
        dict(name='hostile:compile', gen='compile', n=n(20000, 400000), model=False, view='class', oracle='none', laws=['no_crash'], rlimit_as_mb=24, stderr_full=True),
    ],
    rule='every run is executed in a worker process: a dead (stack overflow, abort) or hung worker is bisected to the single killing input. '
         'scanfrag/parsekinds exhaustive small scopes; compile: random texts incl. truncations and single-character mutations of valid scripts, unbalanced delimiters, dangling operators, unterminated strings/comments, arbitrary Unicode; '
         'compiledeep: nesting up to 64 levels of ( [ f( not - and long operator chains up to 4096 characters. Compared class: ok / err / crash / timeout',
    trusted=['Rust stack-frame sizes and wall-clock are not expressible in Lean: the depth bound (parse_depth) is proved on the model, the actual stack is observed by the child-process run'],
 ),
 'C10': dict(
    srcgen={'SrcValidate': 'SlacProps.C10Source', 'SrcEnv': 'SlacProps.C19Source', 'SrcStdlib': 'SlacProps.C09Source'},
    modules=['SlacProps.C10', 'SlacProps.C10Tables', 'SlacProps.C10Optimize'], regen=True,
    streams=[
        dict(name='dcall', n=n(400, 8000), view='kind', oracle='none', laws=['c10_dcall']),
        dict(name='script', n=n(20000, 500000), view='script_chk', oracle='none', laws=['script_c10']),
        dict(name='chkvf', n=n(50000, 1500000), view='chk_exec', oracle='none', laws=['c10']),
        dict(name='spine:chkvf', n=n(1500, 40000), view='chk_exec', oracle='none', laws=['c10']),
        dict(name='vchain:chkvf', n=n(16, 80), view='chk_exec', oracle='none', laws=['c10'], case_timeout=120.0),
        dict(name='opt', n=n(30000, 1000000), view='opt_c10', oracle='none', laws=['c10_opt']),
        dict(name='env', n=n(20000, 500000), oracle='none', rust_oracle=True),
    ],
    rule='chkvf: random trees incl. conditionals and nested calls/arrays with names from a pool that is partly bound, arities at min, max, max+1, 0; verdict, first error with its payload, and the execute result compared; '
         'opt: acceptance before/after optimize; env: function_exists on every arity kind x argument count against the registration',
    trusted=[FLOAT_TB],
 ),
 'C11': dict(
    srcgen={'SrcValidate': 'SlacProps.C10Source'},
    modules=['SlacProps.C11'],
    streams=[dict(name='chkbool', n=n(60000, 2000000), view='chkbool', oracle='none', laws=['c11']),
             dict(name='spine:chkbool', n=n(1500, 40000), view='chkbool', oracle='none', laws=['c11']),
             dict(name='vchain:chkbool', n=n(16, 80), view='chkbool', oracle='none', laws=['c11'], case_timeout=120.0)],
    rule='chkbool: random well-/ill-formed trees with conditionals in result position, executed under environments that leave about half of the variables undefined; '
         'compared: verdict with error payload, execute result, and the proviso (result-position variables/calls yield Booleans)',
    trusted=[FLOAT_TB],
 ),
 'C13': dict(
    srcgen={'SrcOrder': 'SlacProps.C13Source', 'SrcStdlib': 'SlacProps.C09Source'},
    modules=['SlacProps.C13'],
    streams=[
        dict(name='cmp', n=n(60000, 2000000), oracle='none'),
        dict(name='ord', n=n(60000, 2000000), model=False, oracle='none', laws=['ok']),
        dict(name='sortlaw', n=n(20000, 400000), model=False, oracle='none', laws=['ok']),
        dict(name='call:sort,max,min,between,compare', gen='call:sort,max,min,between,compare', n=n(4000, 100000), oracle='none'),
        dict(name='num', n=n(20000, 500000), oracle='none'),
    ],
    rule='cmp: Value::cmp, ==, the six operators on random nested value pairs against the model; ord: all pairwise laws + transitivity + between + compare on random triples, evaluated on the crate; '
         'sortlaw: sort is a permutation / adjacent-sorted / idempotent, min/max are members and bounds, arrays up to 300 elements; call: builtin results against the model on Safe collections (unsafe ones: crash observation only)',
    trusted=[FLOAT_TB, 'slice::sort is a stable sort (std); on the Safe domain the stable sorted permutation is unique (Slac.C13.sort_unique)'],
 ),
 'C19': dict(
    srcgen={'SrcEnv': 'SlacProps.C19Source'},
    modules=['SlacProps.C19'],
    streams=[
        dict(name='envex', n=n(3, 4), oracle='none', rust_oracle=True),
        dict(name='env', n=n(40000, 1000000), oracle='none', rust_oracle=True),
        dict(name='eval', n=n(20000, 500000), view='result', laws=['eval_side']),
    ],
    rule='envex: ALL histories of <=3 (quick) / <=4 (thorough) operations from a 19-operation alphabet (3 spellings of 2 names x {add/overwrite/remove variable, add/remove function}, clear), every lookup after every step; '
         'env: random histories up to 200 operations over 20 names incl. non-ASCII; eval: trees with identifiers in random letter case. Falsifier: an independent BTreeMap reference keyed by to_lowercase (harness/src/oracle.rs)',
    trusted=['str::to_lowercase decides which spellings are the same name (theorems hold for every fold function)'],
 ),
 'C08': dict(
    modules=['SlacProps.C08'], builds=['default', 'checked'],
    streams=[
        dict(name='evaltable', n=n(0, 0), view='first', laws=['no_crash']),
        dict(name='evalill', n=n(30000, 1000000), view='first', laws=['no_crash']),
        dict(name='deep:eval', n=n(4000, 100000), view='first', laws=['no_crash']),
        dict(name='optill', n=n(20000, 500000), view='first', oracle='none', laws=['no_crash'], case_timeout=20.0),
        dict(name='deep:opt', n=n(3000, 100000), view='first', oracle='none', laws=['no_crash'], case_timeout=20.0),
        dict(name='deep:chkvf', n=n(3000, 100000), view='first', oracle='none', laws=['no_crash']),
        dict(name='deep:chkbool', n=n(3000, 100000), view='first', oracle='none', laws=['no_crash']),
        dict(name='deep:json', n=n(3000, 100000), view='jsonclass', oracle='none', laws=['no_crash']),
        dict(name='deep:tcmp', n=n(3000, 100000), model=False, oracle='none', laws=['no_crash']),
        dict(name='spine:eval', n=n(1000, 30000), view='first', oracle='none', laws=['no_crash'], case_timeout=20.0),
        dict(name='spine:opt', n=n(1000, 30000), view='first', oracle='none', laws=['no_crash'], case_timeout=20.0),
        dict(name='spine:chkvf', n=n(1000, 30000), view='first', oracle='none', laws=['no_crash'], case_timeout=20.0),
        dict(name='spine:chkbool', n=n(1000, 30000), view='first', oracle='none', laws=['no_crash'], case_timeout=20.0),
        dict(name='spine:json', n=n(1000, 30000), view='jsonclass', oracle='none', laws=['no_crash'], case_timeout=20.0),
        dict(name='chain:opt', n=n(60, 1000), view='first', oracle='none', laws=['no_crash'], case_timeout=30.0),
        dict(name='chain:eval', n=n(60, 1000), view='first', laws=['no_crash'], case_timeout=30.0),
        dict(name='wide:eval', n=n(16, 160), view='first', laws=['no_crash'], case_timeout=60.0),
        dict(name='vchain:chkvf', n=n(16, 80), view='first', oracle='none', laws=['no_crash'], case_timeout=120.0),
        dict(name='vchain:chkbool', n=n(16, 80), view='first', oracle='none', laws=['no_crash'], case_timeout=120.0),
        # JSON written by ANOTHER system (integer tokens at the i64/u64 limits, exponent spellings), deserialised in the overflow-checked build
        dict(name='jsonin', build='checked', n=n(20000, 400000), model=False, oracle='none', laws=['no_crash']),
        # "every environment": histories of a StaticEnvironment (mixed-case registrations, removals, extend_environment) with calls and lookups in between,
        # and whole scripts over the full standard library executed, validated and optimized
        dict(name='env', n=n(8000, 200000), model=False, oracle='none', laws=['no_crash']),
        dict(name='script', n=n(6000, 150000), model=False, oracle='none', laws=['no_crash'], case_timeout=20.0),
    ],
    rule='ill-formed generator: all 17 operators in unary/binary/ternary position, empty and odd names, non-finite and array literals, wrong argument counts, registered and unregistered calls; '
         'deep:* = one spine nested 1..64 levels with small random siblings. Every case runs in a worker process; compared observation: ok / err / crash / timeout class only. non-trivial = tree has an operator/call/array node',
    trusted=['Rust stack-frame sizes and wall-clock are observed by the child-process run, not proved'],
 ),
 'C09': dict(
    modules=['SlacProps.C09'], regen=True, builds=['default', 'checked', 'zero', 'zerochecked'],
    srcgen={'SrcStdlib': 'SlacProps.C09Source'},
    streams=[dict(name='call', build=b, n=n(150, 2500), oracle='none', rust_oracle=True, laws=['no_crash'], case_timeout=20.0) for b in ['default', 'checked', 'zero', 'zerochecked']] +
            [dict(name='re', n=n(20000, 500000), oracle='none', laws=['no_crash'])] +
            [dict(name=f'tm{m}', gen=f'py:timegen.py {m}', build='checked', n=n(q, t), oracle='none', laws=['no_crash']) for m, q, t in (('fmt', 3000, 60000), ('parse', 3000, 60000), ('rfc2822', 3000, 60000), ('hand', 0, 0))] +
            # the functions that consult the host's local time zone, run east and west of Greenwich (a zone offset moves values across chrono's limits)
            [dict(name=f'tz{tag}', gen='call:' + TIME_FNS, build=b, n=n(300, 5000), oracle='none', laws=['no_crash'], tz=tz, case_timeout=20.0)
             for tag, tz in (('east', 'CET-1CEST,M3.5.0,M10.5.0/3'), ('west', 'EST5EDT,M3.2.0,M11.1.0')) for b in ('default', 'checked')],
    rule='tzeast/tzwest: the date/time builtins under a local zone east / west of Greenwich with daylight saving (release and overflow-checked builds); call: every registered builtin x n generated argument lists (7/8 of the documented kinds with boundary magnitudes: NaN, +-inf, +-0, -1, 0.5, 2^53, 2^64, 1e300 as indices/counts/dates/code points; '
         'empty and non-ASCII strings; malformed formats and patterns; arrays of 0, 1, 20, 21, 30-300 elements; 1/8 arbitrary kinds and counts 0..5), in worker processes, in 4 builds '
         '(overflow checks on/off x zero_based_strings off/on). The answer is also compared with the model (unmodelled calls are skipped and counted). non-trivial: every case',
    trusted=[FLOAT_TB, 'panics inside chrono / slice::sort / regex-lite, memory and time are visible only to the crash-observing run'],
 ),
 'C14': dict(
    modules=['SlacProps.C14', 'SlacProps.C14Nondet'], regen=True,
    streams=[
        dict(name='rep', n=n(100, 1500), model=False, oracle='none', laws=['stable'], tz='CET-1CEST,M3.5.0,M10.5.0/3'),
        dict(name='call', n=n(100, 2500), oracle='none', repeat_process=True, tz='CET-1CEST,M3.5.0,M10.5.0/3'),
        dict(name='nd', n=n(20000, 300000), oracle='none', laws=['nd']),
        # the answer of a pure builtin must not depend on how LONG the call takes: inputs grown until one call needs about two seconds
        dict(name='slowpure', n=n(2, 8), model=False, oracle='none', laws=['same'], case_timeout=180.0),
        dict(name='rexrep', gen='py:regexgen.py valid', n=n(6000, 100000), oracle='none', repeat_process=True, case_timeout=30.0),
        # a zone whose offset is not a whole number of hours (Newfoundland): its switches fall at hh:30 UTC
        dict(name='callnst', gen='call:date_from_rfc3339,date_from_rfc2822,date_to_rfc3339,date_to_rfc2822', n=n(1500, 20000), oracle='none', repeat_process=True, tz='NST3:30NDT,M3.2.0,M11.1.0'),
    ],
    rule='nd: the two impure builtins (random, choice): an answer recorded at generation time is checked against the model with the OS random word explicit (is there a word that gives this answer?), and 8 fresh answers per case against the same relation on the crate; rep: every pure builtin x n argument lists, each evaluated 20 times in one process with other calls in between; call: the same lists evaluated in two separate processes (differently seeded hashers) and compared, '
         'and compared with the model (a Lean function of the arguments). Arrays whose elements are equal across kinds (1, \'1\', true) are over-represented',
    trusted=[FLOAT_TB, '"fresh process, different hasher seed" is an observation, not a theorem'],
 ),
 'C18': dict(
    modules=['SlacProps.C18', 'SlacProps.C18Engine'],
    srcgen={'SrcStdlib': 'SlacProps.C09Source', 'SrcRegex': 'SlacProps.C18Source'},
    streams=[
        dict(name='re', n=n(20000, 300000), oracle='none'),
        dict(name='relaw', n=n(20000, 300000), model=False, oracle='none', laws=['ok']),
        dict(name='rex', gen='py:regexgen.py mix', n=n(30000, 600000), oracle='none', laws=['no_crash'], case_timeout=30.0),
        dict(name='rexvalid', gen='py:regexgen.py valid', n=n(15000, 300000), oracle='none', laws=['no_crash'], case_timeout=30.0),
        dict(name='rexcall', gen='call:re_is_match,re_find,re_capture,re_replace', n=n(3000, 50000), oracle='none', laws=['no_crash'], case_timeout=30.0),
    ],
    rule='rex / rexvalid / rexcall: the four builtins on random-grammar patterns (tools/regexgen.py: mixed valid/malformed, valid-heavy) and on the harness pools, answered by the CONCRETE engine model '
         '(SlacModel/RegexEngine.lean: parser incl. every error branch and the nest/size limits, backtracking matcher with leftmost-first priorities, find_iter empty-match rule, $-interpolation) and compared exactly; patterns outside its subset (nullable body under an unbounded loop, flag x, non-ASCII group names) answer unmodelled and are counted. '
         're: the four wrappers on haystacks (empty, ASCII, non-ASCII) x patterns (literals, classes, repetitions, alternations, groups incl. optional/nested/named, anchors, empty-matching, invalid) x replacements (plain, $-references) x limits, '
         'with the raw regex-lite answers shipped in the case so that the wrapper logic is compared exactly; relaw: the property\'s cross-function relations evaluated on the builtins (is_match vs find, capture shape/length, replace limit via match spans, escaped literals vs contains/count/replace, invalid patterns)',
    trusted=['regex-lite: the theorems of C18.lean are relative to the stated engine laws; C18Engine.lean proves them (LawfulEngine, the literal law and the replace-splices law for replacement texts without $) for the concrete engine model, whose agreement with regex-lite 0.1.9 is the behavioural tie of the rex streams (differential testing, not a proof about the PikeVM)'],
 ),
 'C15': dict(
    modules=['SlacProps.C15', 'SlacProps.C15Float'], builds=['default', 'zero'],
    srcgen={'SrcStdlib': 'SlacProps.C09Source'},
    streams=[dict(name='call:length,at,copy,insert,find,count,contains,replace,remove,reverse,unique,all,any,split,split_csv,trim,trim_left,trim_right,lowercase,uppercase,same_text', gen='call:length,at,copy,insert,find,count,contains,replace,remove,reverse,unique,all,any,split,split_csv,trim,trim_left,trim_right,lowercase,uppercase,same_text', build=b, n=n(250, 10000), oracle='model', laws=['no_crash']) for b in ('default', 'zero')] +
            [dict(name='poslaw', build=b, n=n(30000, 1000000), model=False, oracle='none', laws=['ok']) for b in ('default', 'zero')] +
            # two look-alike calls of ONE builtin inside one expression (arguments only loosely equal: 1 / true / '1', 0 / -0), through compile + execute + optimize
            [dict(name='pairs', gen='pairs:length,at,copy,insert,find,count,contains,replace,remove,reverse,unique,all,any,split,split_csv,trim,trim_left,trim_right,lowercase,uppercase,same_text,max,min,sort,str', n=n(150, 5000), view='script_exec', oracle='model')],
    rule='call: the 21 collection/string builtins x generated argument lists in both index-base builds: strings from ASCII / multi-byte / combining / astral / empty pools, heterogeneous and nested arrays, needles that are substrings, empty, overlapping (aa in aaa); '
         'positions and counts at first-1, first, last, last+1, 0, fractional, huge, NaN; answers compared with the sequence model. poslaw: at-enumeration, copy(s, find(s,x), length(x)) = x, failed find = first-1, array laws — evaluated on the builtins themselves',
    trusted=[FLOAT_TB, 'LawfulIdx Float is PROVED (SlacProofs/F64Idx.lean): the position theorems hold for binary64 without hypotheses (SlacProps/C15Float.lean)',
             'Unicode case mapping / White_Space from Rust std tables'],
 ),
 'C16': dict(
    modules=['SlacProps.C16', 'SlacProps.C16Float', 'SlacProps.C16Rfc', 'SlacProps.C16RfcFloat', 'SlacProps.C16Zone', 'SlacProps.C16ZoneFloat'],
    srcgen={'SrcTime': 'SlacProps.C16Source'},
    streams=[
        dict(name='tmrange', n=n(0, 1), view='tmrange', oracle='none', laws=['tmrange'], case_timeout=600.0),
        # neighbouring instants (last millisecond of a day, midnight of the next, ...) decoded back to back, days before and after 1970; law on the crate alone
        dict(name='tmpairs', n=n(40, 2000), model=False, oracle='none', laws=['tmrange'], case_timeout=120.0),
        dict(name='tzeast', gen='call:' + TIME_FNS, n=n(300, 6000), oracle='model', laws=['no_crash'], tz='CET-1CEST,M3.5.0,M10.5.0/3', tz_invariant=True),
        dict(name='tzwest', gen='call:' + TIME_FNS, n=n(300, 6000), oracle='model', laws=['no_crash'], tz='EST5EDT,M3.2.0,M11.1.0', tz_invariant=True),
        dict(name='tmfmt', gen='py:timegen.py fmt', n=n(6000, 150000), oracle='model', laws=['no_crash']),
        dict(name='tmparse', gen='py:timegen.py parse', n=n(6000, 150000), oracle='model', laws=['no_crash']),
        dict(name='tmtz', gen='py:timegen.py tz', n=n(3000, 60000), oracle='model', laws=['no_crash']),
        dict(name='tmrfc3339', gen='py:timegen.py rfc3339', n=n(6000, 150000), oracle='model', laws=['no_crash']),
        dict(name='tmrfc2822', gen='py:timegen.py rfc2822', n=n(6000, 150000), oracle='model', laws=['no_crash']),
        dict(name='tmhand', gen='py:timegen.py hand', n=n(0, 0), oracle='model', laws=['no_crash']),
        dict(name='call:date,time,date_to_string,time_to_string,string_to_date,string_to_time,string_to_datetime,day_of_week,encode_date,encode_time,inc_month,is_leap_year,year,month,day,hour,minute,second,millisecond', gen='call:date,time,date_to_string,time_to_string,string_to_date,string_to_time,string_to_datetime,day_of_week,encode_date,encode_time,inc_month,is_leap_year,year,month,day,hour,minute,second,millisecond', n=n(400, 20000), oracle='model', laws=['no_crash']),
        dict(name='num', n=n(30000, 1000000), oracle='none'),
    ],
    rule='tmrange: whole ranges evaluated inside one request, compared by violation count + digest of all encoded numbers: quick = 45 ranges of 2000 dates (incl. year 1, year 9999, 1970, leap day 2000), 44 ranges of 5000 ms of day (incl. midnight, end of day, hour and noon boundaries), 20x2000 date x time combinations through both construction routes and inc_month with increments -24000..24000; '
         'thorough = ALL 3 652 059 dates of years 1-9999, ALL 86 400 000 milliseconds of day, 1 000 000 combinations. call: the 19 date-time builtins on boundary-heavy arguments (year 0/-1/9999/10000, chrono limits, NaN, inf, malformed formats and strings). TZ=UTC',
    trusted=[FLOAT_TB, 'LawfulTimeNum Float is PROVED (SlacProofs/F64Arith.lean: core Float division and multiplication satisfy the standard model on normal results; F64Time.lean: decode(encode) for |T| <= 2^48 ms), so the C16 theorems hold for binary64 without hypotheses (SlacProps/C16Float.lean)',
             'chrono (NaiveDate range, checked_add_months, default-format parsing/printing) is modelled by SlacModel/Time.lean on the canonical spellings only; other spellings/formats are skipped and counted'],
 ),
 'C17': dict(
    modules=['SlacProps.C17', 'SlacProps.C17Debug'], builds=['default', 'debug'],
    srcgen={'SrcStdlib': 'SlacProps.C09Source'},
    streams=[
        dict(name='call:str,float,int,bool,chr,ord,int_to_hex,even,odd,abs,round,trunc,frac,sqrt,exp,ln,sin,cos,arc_tan,pow', gen='call:str,float,int,bool,chr,ord,int_to_hex,even,odd,abs,round,trunc,frac,sqrt,exp,ln,sin,cos,arc_tan,pow', n=n(400, 20000), oracle='model', laws=['no_crash']),
        dict(name='num', n=n(60000, 2000000), oracle='none'),
        dict(name='mathlaw', n=n(20000, 1000000), model=False, oracle='none', laws=['ok']),
        # the same laws in an UNOPTIMISED build, where `powf`, `sin`, ... are the C library's functions exactly as called (no compile-time rewriting)
        dict(name='mathlaw', build='debug', n=n(12000, 200000), model=False, oracle='none', laws=['ok'], case_timeout=60.0),
    ],
    rule='call: the 20 conversion/maths builtins on boundary-heavy arguments against the model; num: every bit-level definition of Num.lean (trunc, fract, round, fmod, casts, decimal parsing, shortest printing) against the hardware / std; '
         'mathlaw (on the crate): builtin vs f64::method bit for bit incl. libm, float(str(x)) = x, trunc+frac, round half away, chr/ord over ALL 1 114 112 code points (exhaustive), parity and hex over -2000..2000, the 2^31 / 2^32 / 2^52 / 2^53 / 2^62 neighbourhoods and random integers',
    trusted=[FLOAT_TB, 'libm (sin cos exp ln atan pow) is a parameter of the model: the property only says the builtin IS the library function', 'float("") differs from the model only in the text of the error message (not compared)'],
 ),
}
