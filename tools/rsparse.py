#!/usr/bin/env python3
"""
rsparse.py — a parser for the subset of Rust that SLAC's tree functions are written in
(src/validate.rs, src/optimizer.rs, the `Environment` impl of src/environment.rs, the ordering part of src/value.rs).

It is a real recursive-descent parser (tokens -> AST), not a text matcher: whitespace, line breaks, comments,
redundant parentheses and trailing commas do not matter.  Anything outside the subset raises `Unrecognised`
(which the check reports as `source_translation: unrecognised`, never as an alarm).

AST (tuples):
  expressions  ('path', [seg..]) ('lit', kind, text) ('call', f, [args]) ('mcall', recv, name, turbofish|None, [args])
               ('field', e, name) ('index', e, i) ('try', e) ('unop', op, e) ('binop', op, l, r) ('tuple', [e..]) ('array', [e..])
               ('struct', path, [(field, e)..]) ('closure', [pat..], body) ('block', [stmt..], tail|None)
               ('match', scrut, [(pats, guard|None, body)..]) ('if', cond, then, else|None) ('iflet', pat, e, then, else|None)
               ('macro', name, token-list) ('for', pat, iter, body) ('loop', body) ('return', e|None) ('assign', lhs, rhs)
               ('cast', e, type-name) ('while', cond, body) ('whilelet', pat, e, body)      (`a += b` is read as ('assign', a, ('binop', '+', a, b)))
  statements   ('let', pat, e) ('expr', e)            (an expression statement; `e` may be an ('assign'..))
  patterns     ('pwild',) ('pbind', name) ('ppath', path) ('ptuplestruct', path, [p..]) ('pstruct', path, [(field, p)..], has_rest)
               ('ptuple', [p..]) ('pslice', [p..]) ('plit', kind, text) ('pref', p) ('prest',)
"""
import re

class Unrecognised(Exception): pass

TOKEN_RE = re.compile(r'''
    (?P<ws>\s+|//[^\n]*|/\*.*?\*/)
  | (?P<str>"(?:\\.|[^"\\])*")
  | (?P<chr>'(?:\\.|[^'\\])')
  | (?P<life>'[A-Za-z_]\w*)
  | (?P<num>\d[\d_]*(?:\.\d[\d_]*)?(?:[eE][-+]?\d+)?(?:_?(?:f64|f32|u8|u16|u32|u64|usize|i8|i16|i32|i64|isize))?)
  | (?P<id>[A-Za-z_]\w*)
  | (?P<op>::|=>|->|&&|\|\||==|!=|<=|>=|\.\.=|\.\.|\+=|-=|\*=|/=|[-+*/%&|^!<>=.,;:(){}\[\]?#@])
''', re.S | re.X)

def tokenize(src):
    out, i = [], 0
    while i < len(src):
        m = TOKEN_RE.match(src, i)
        if not m: raise Unrecognised(f'cannot tokenize at {src[i:i+20]!r}')
        i = m.end()
        k = m.lastgroup
        if k == 'ws': continue
        out.append((k, m.group()))
    return out

BINPREC = [('..=',), ('||',), ('&&',), ('==', '!=', '<', '>', '<=', '>='), ('|',), ('^',), ('&',), ('+', '-'), ('*', '/', '%')]

class P:
    def __init__(self, toks): self.t = toks; self.i = 0; self.let_types = {}
    def peek(self, k=0): return self.t[self.i + k] if self.i + k < len(self.t) else ('eof', '')
    def at(self, v, k=0): return self.peek(k)[1] == v and self.peek(k)[0] in ('op', 'id')
    def eat(self, v):
        if not self.at(v): raise Unrecognised(f'expected {v!r}, found {self.peek()[1]!r} (token {self.i})')
        self.i += 1
    def accept(self, v):
        if self.at(v): self.i += 1; return True
        return False
    def ident(self):
        k, v = self.peek()
        if k != 'id': raise Unrecognised(f'expected identifier, found {v!r}')
        self.i += 1; return v

    # ---- paths and types ------------------------------------------------------------------------
    def path(self):
        segs = [self.ident()]
        while self.at('::') and self.peek(1)[0] == 'id':
            self.i += 1; segs.append(self.ident())
        return segs
    def skip_generics(self):
        """`::<...>` or `<...>` : returns the raw text"""
        depth, out = 0, []
        while True:
            k, v = self.peek()
            if k == 'eof': raise Unrecognised('unbalanced <>')
            self.i += 1; out.append(v)
            if v == '<': depth += 1
            elif v == '>':
                depth -= 1
                if depth == 0: return ''.join(out)
    def type_text(self):
        """consume a type, return its normalised text"""
        out, depth = [], 0
        while True:
            k, v = self.peek()
            if k == 'eof': break
            if depth == 0 and v in (',', ')', '{', '=', ';', '>') and k == 'op': break
            if depth == 0 and v == 'where': break
            if v in ('<', '(', '['): depth += 1
            if v in ('>', ')', ']'): depth -= 1
            self.i += 1; out.append(v)
        return ' '.join(out).replace(' :: ', '::').replace('< ', '<').replace(' >', '>').replace('& ', '&').replace('( )', '()').replace('[ ', '[').replace(' ]', ']')

    # ---- patterns -------------------------------------------------------------------------------
    def pattern(self):
        alts = [self.pattern1()]
        while self.at('|'):
            self.i += 1; alts.append(self.pattern1())
        return alts if len(alts) > 1 else alts[0]
    def pattern_alts(self):
        p = self.pattern()
        return p if isinstance(p, list) else [p]
    def pattern1(self):
        k, v = self.peek()
        if self.accept('&'):
            self.accept('mut'); return ('pref', self.pattern1())
        if self.accept('..'): return ('prest',)
        if self.at('('):
            self.i += 1; ps = []
            while not self.at(')'):
                ps.append(self.pattern()); self.accept(',')
            self.eat(')')
            return ('ptuple', ps) if len(ps) != 1 else ps[0]
        if self.at('['):
            self.i += 1; ps = []
            while not self.at(']'):
                ps.append(self.pattern()); self.accept(',')
            self.eat(']'); return ('pslice', ps)
        if k in ('num', 'str', 'chr'):
            self.i += 1; return ('plit', k, v)
        if k == 'op' and v == '-' and self.peek(1)[0] == 'num':
            self.i += 2; return ('plit', 'num', '-' + self.peek(-1)[1])
        if k == 'id':
            if v == '_': self.i += 1; return ('pwild',)
            if v in ('true', 'false'): self.i += 1; return ('plit', 'bool', v)
            if v in ('ref', 'mut'): self.i += 1; return self.pattern1()
            path = self.path()
            if self.at('('):
                self.i += 1; ps = []
                while not self.at(')'):
                    ps.append(self.pattern()); self.accept(',')
                self.eat(')'); return ('ptuplestruct', path, ps)
            if self.at('{'):
                self.i += 1; fs, rest = [], False
                while not self.at('}'):
                    if self.accept('..'): rest = True; continue
                    f = self.ident()
                    if self.accept(':'): fs.append((f, self.pattern()))
                    else: fs.append((f, ('pbind', f)))
                    self.accept(',')
                self.eat('}'); return ('pstruct', path, fs, rest)
            if len(path) == 1 and (path[0][0].islower() or path[0][0] == '_'): return ('pbind', path[0])
            return ('ppath', path)
        raise Unrecognised(f'pattern at {v!r}')

    # ---- expressions ----------------------------------------------------------------------------
    def expr(self, nostruct=False): return self.binary(0, nostruct)
    def binary(self, lvl, nostruct):
        if lvl == len(BINPREC): return self.unary(nostruct)
        l = self.binary(lvl + 1, nostruct)
        while self.peek()[0] == 'op' and self.peek()[1] in BINPREC[lvl]:
            op = self.peek()[1]
            if op == '|' and self.peek(1)[1] == '|': break
            self.i += 1
            r = self.binary(lvl + 1, nostruct); l = ('binop', op, l, r)
        return l
    def unary(self, nostruct):
        for op in ('!', '-', '*'):
            if self.at(op): self.i += 1; return ('unop', op, self.unary(nostruct))
        if self.at('&'):
            self.i += 1; self.accept('mut'); return ('unop', '&', self.unary(nostruct))
        if self.at('&&'):
            self.i += 1; return ('unop', '&', ('unop', '&', self.unary(nostruct)))
        e = self.postfix(self.primary(nostruct), nostruct)
        while self.peek() == ('id', 'as'):                  # `e as T` (T a plain path such as usize, f64, i8)
            self.i += 1; e = ('cast', e, '::'.join(self.path()))
        return e
    def args(self, close=')'):
        out = []
        while not self.at(close):
            out.append(self.expr()); self.accept(',')
        self.eat(close); return out
    def postfix(self, e, nostruct):
        while True:
            if self.at('?'): self.i += 1; e = ('try', e)
            elif self.at('.'):
                self.i += 1
                k, v = self.peek()
                if k == 'num': self.i += 1; e = ('field', e, v); continue
                name = self.ident(); tf = None
                if self.at('::'): self.i += 1; tf = self.skip_generics()
                if self.at('('): self.i += 1; e = ('mcall', e, name, tf, self.args())
                else: e = ('field', e, name)
            elif self.at('('): self.i += 1; e = ('call', e, self.args())
            elif self.at('['):
                self.i += 1
                ix = ('range_to', self.expr()) if self.accept('..') else self.expr()        # `xs[..n]`
                self.eat(']'); e = ('index', e, ix)
            else: return e
    def block(self):
        self.eat('{'); stmts, tail = [], None
        while not self.at('}'):
            if self.accept(';'): continue
            if self.at('let'):
                self.i += 1; pat = self.pattern()
                if self.accept(':'):
                    ty = self.type_text()
                    if pat[0] == 'pbind': self.let_types[pat[1]] = ty
                self.eat('='); e = self.expr(); self.eat(';'); stmts.append(('let', pat, e)); continue
            e = self.expr_stmt()
            if self.accept(';'): stmts.append(('expr', e))
            elif self.at('}'): tail = e
            elif e[0] in ('match', 'if', 'iflet', 'for', 'loop', 'block', 'while', 'whilelet'): stmts.append(('expr', e))
            else: raise Unrecognised(f'expected ; or }} after expression, found {self.peek()[1]!r}')
        self.eat('}')
        return ('block', stmts, tail)
    def expr_stmt(self):
        if self.at('{') or (self.peek()[0] == 'id' and self.peek()[1] in ('match', 'if', 'for', 'loop', 'while')):
            return self.primary(False)            # block-like expression in statement / arm position: no postfix continuation
        e = self.expr()
        if self.at('=') :
            self.i += 1; return ('assign', e, self.expr())
        for cop in ('+=', '-=', '*=', '/='):
            if self.at(cop):
                self.i += 1; return ('assign', e, ('binop', cop[0], e, self.expr()))
        return e
    def primary(self, nostruct):
        k, v = self.peek()
        if k in ('num', 'str', 'chr'): self.i += 1; return ('lit', k, v)
        if self.at('('):
            self.i += 1; es = []
            while not self.at(')'):
                es.append(self.expr()); self.accept(',')
            self.eat(')')
            return es[0] if len(es) == 1 else ('tuple', es)
        if self.at('['): self.i += 1; return ('array', self.args(']'))
        if self.at('{'): return self.block()
        if self.at('|') or self.at('||'):
            pats = []
            if self.accept('||'): pass
            else:
                self.eat('|')
                while not self.at('|'):
                    pats.append(self.pattern1())
                    if self.accept(':'): self.type_text()
                    self.accept(',')
                self.eat('|')
            return ('closure', pats, self.expr())
        if k != 'id': raise Unrecognised(f'expression at {v!r}')
        if v in ('true', 'false'): self.i += 1; return ('lit', 'bool', v)
        if v == 'match':
            self.i += 1; scrut = self.expr(nostruct=True); self.eat('{'); arms = []
            while not self.at('}'):
                pats = self.pattern_alts(); guard = None
                if self.accept('if'): guard = self.expr(nostruct=True)
                self.eat('=>')
                body = self.expr_stmt()
                if not self.accept(',') and not self.at('}') and body[0] not in ('block', 'match', 'if', 'iflet'):
                    raise Unrecognised(f'expected , after match arm, found {self.peek()[1]!r}')
                arms.append((pats, guard, body))
            self.eat('}'); return ('match', scrut, arms)
        if v == 'if':
            self.i += 1
            if self.accept('let'):
                pat = self.pattern(); self.eat('='); e = self.expr(nostruct=True); then = self.block(); els = None
                if self.accept('else'): els = self.primary(nostruct) if self.at('if') else self.block()
                return ('iflet', pat, e, then, els)
            c = self.expr(nostruct=True); then = self.block(); els = None
            if self.accept('else'): els = self.primary(nostruct) if self.at('if') else self.block()
            return ('if', c, then, els)
        if v == 'for':
            self.i += 1; pat = self.pattern(); self.eat('in'); it = self.expr(nostruct=True); return ('for', pat, it, self.block())
        if v == 'loop': self.i += 1; return ('loop', self.block())
        if v == 'while':
            self.i += 1
            if self.accept('let'):
                pat = self.pattern(); self.eat('='); e = self.expr(nostruct=True); return ('whilelet', pat, e, self.block())
            c = self.expr(nostruct=True); return ('while', c, self.block())
        if v == 'return':
            self.i += 1
            return ('return', None if self.at(';') or self.at('}') else self.expr())
        path = self.path()
        if self.at('::') and self.peek(1)[1] == '<':
            self.i += 1; path[-1] += self.skip_generics()
        if self.at('!') and self.peek(1)[1] in ('(', '['):
            close = ')' if self.peek(1)[1] == '(' else ']'
            self.i += 2; depth, toks = 1, []
            while True:
                kk, vv = self.peek(); self.i += 1
                if kk == 'eof': raise Unrecognised('unbalanced macro')
                if vv in ('(', '[', '{'): depth += 1
                if vv in (')', ']', '}'):
                    depth -= 1
                    if depth == 0: break
                toks.append((kk, vv))
            return ('macro', path[0], toks)
        if self.at('{') and not nostruct and path[-1][0].isupper():
            self.i += 1; fs = []
            while not self.at('}'):
                f = self.ident()
                if self.accept(':'): fs.append((f, self.expr()))
                else: fs.append((f, ('path', [f])))
                self.accept(',')
            self.eat('}'); return ('struct', path, fs)
        return ('path', path)

# ---- items ------------------------------------------------------------------------------------------------------------

def strip_tests(src):
    return src.split('#[cfg(test)]')[0]

def find_fn(src, name, after=None):
    """locate `fn name` (optionally after the first match of regex `after`, e.g. an impl header); returns
       dict(params=[(pattern-or-'self', type-text)], ret=type-text, body=AST block)"""
    toks = tokenize(strip_tests(src))
    start = 0
    if after:
        words = after.split()
        for i in range(len(toks)):
            if [t[1] for t in toks[i:i + len(words)]] == words: start = i; break
        else: raise Unrecognised(f'`{after}` not found')
    for i in range(start, len(toks) - 1):
        if toks[i] == ('id', 'fn') and toks[i + 1] == ('id', name):
            p = P(toks); p.i = i + 2
            if p.at('<'): p.skip_generics()
            p.eat('('); params = []
            while not p.at(')'):
                if p.at('&') and p.peek(1)[1] in ('self', 'mut') and (p.peek(1)[1] == 'self' or p.peek(2)[1] == 'self'):
                    p.i += 1; mut = p.accept('mut'); p.eat('self'); params.append(('self', '&mut Self' if mut else '&Self'))
                elif p.at('self'): p.i += 1; params.append(('self', 'Self'))
                else:
                    p.accept('mut'); n = p.ident(); p.eat(':'); params.append((n, p.type_text()))
                p.accept(',')
            p.eat(')'); ret = '()'
            if p.accept('->'): ret = p.type_text()
            if p.at('where'):
                while not p.at('{'): p.i += 1
            body = p.block()
            return dict(name=name, params=params, ret=ret, body=body, let_types=p.let_types)
    raise Unrecognised(f'fn {name} not found')

def find_const(src, name):
    m = re.search(r'\bconst\s+' + name + r'\s*:\s*[^=]+=\s*"((?:\\.|[^"\\])*)"\s*;', src)
    if not m: raise Unrecognised(f'const {name} not found')
    return m.group(1)

if __name__ == '__main__':
    import sys, pprint
    src = open(sys.argv[1]).read()
    for n in sys.argv[2:]:
        pprint.pprint(find_fn(src, n), width=160)
