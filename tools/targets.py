#!/usr/bin/env python3
"""prints the Lean build targets the checks need: the driver and every property module of tools/props.py"""
import os, sys
sys.path.insert(0, os.path.dirname(os.path.abspath(__file__)))
import props
mods = []
for p in props.PROPS.values():
    for m in list(p['modules']) + list(p.get('srcgen', {}).values()) + list((p.get('capstones') or {}).keys()):
        if m not in mods: mods.append(m)
print(' '.join(['driver'] + mods + ['SlacProps.SourceSpec']))
