#!/usr/bin/env python3
"""
rs2lean.py — translator from the Rust subset parsed by rsparse.py to Lean 4 definitions over the SLAC model's types.

Run on every check (tools/check.py) against the CURRENT text of /repo/src; writes

  SlacModel/Generated/SrcValidate.lean    src/validate.rs      check_variables_and_functions, check_expressions, check_boolean_result
  SlacModel/Generated/SrcEnv.lean         src/environment.rs   impl Environment for StaticEnvironment (variable, call, variable_exists,
                                                               function_exists) and get_env_key
  SlacModel/Generated/SrcOrder.lean       src/value.rs         Ord::cmp, PartialEq::eq, ordinal, empty, is_empty, as_bool
  SlacModel/Generated/SrcOptimizer.lean   src/optimizer.rs     expressions_are_const, transform_ternary, fold_constants, optimize

The `…Source` theorem files (SlacProps/C10Source, C11Source, C13Source, C05Source, C19Source) prove that the hand-written model
functions the property theorems are about ARE these generated functions.  So the theorems are re-checked against what the source
says now; a change of behaviour in one of these functions changes the generated definition and breaks a proof obligation.

How Rust is read (this is the trusted part of the translator; everything else is mechanical):
  * ownership is erased: `&x`, `&mut x`, `*x`, `x.clone()`, `x.cloned()`, `x.as_ref()`, `x.as_slice()`, `x.to_string()`, `Box::new(x)`,
    `Rc::new(x)`, `(*v).clone()` are `x`;
  * enums / structs map to the model's inductive types by the constructor table CTORS (field order fixed there);
  * `Result` is `Except`, `Option` is `Option`; `e?` and `a.and_then(|p| b)` are monadic bind; `Ok(())` is `.ok ()`;
  * `xs.iter().try_for_each(|x| f(.., x))` and `for x in xs { … }` become a list recursion generated next to the function
    (`<fn>_each`), `xs.iter().all(|x| p)` is `List.all`;
  * a function taking `&mut` parameters returns their final values (and `Option Err` for `Result<()>`: `none` = `Ok(())`);
    `*p = e` rebinds, a pattern binding into a `&mut` tree is a place whose final value is written back into the node when the
    arm ends (functional translation of borrows); `loop` becomes recursion on a fuel argument (`.outOfFuel` when it runs out);
  * a `match` arm with an `if` guard falls through to the next arm of the same shape;
  * method calls are resolved by the static type of the receiver, inferred from patterns and signatures (table METHODS below):
    `partial_cmp`, `==` on bool / String / f64 / Vec<Value> are cmpBool / cmpStr / NumOps.pcmp / the lexicographic list order;
    `HashMap::get/contains_key` are association-list lookups (`alGet`) keyed as in SlacModel/Env.lean.
Anything not in the tables raises `Unrecognised`: the file is then not written, the corresponding `…Source` module is left out of
the run (evidence key `source_translation`), and the behavioural tie decides alone.  No alarm is ever raised by the translator.
"""
import os, sys, re
sys.path.insert(0, os.path.dirname(os.path.abspath(__file__)))
from rsparse import Unrecognised, find_fn, find_const, strip_tests

def lc(n): return n[0].lower() + n[1:]
RESERVED = {'variable': 'variable_', 'call': 'call_', 'eq': 'eq', 'cmp': 'cmp'}

# ---- constructor table: Rust path -> (Lean constructor, [field names in Lean argument order], [field types]) ------------------------
CTORS = {
    ('Expression', 'Unary'): ('.unary', ['right', 'operator'], ['expr', 'op']),
    ('Expression', 'Binary'): ('.binary', ['left', 'right', 'operator'], ['expr', 'expr', 'op']),
    ('Expression', 'Ternary'): ('.ternary', ['left', 'middle', 'right', 'operator'], ['expr', 'expr', 'expr', 'op']),
    ('Expression', 'Array'): ('.array', ['expressions'], ['exprs']),
    ('Expression', 'Literal'): ('.lit', ['value'], ['value']),
    ('Expression', 'Variable'): ('.var', ['name'], ['str']),
    ('Expression', 'Call'): ('.call', ['name', 'params'], ['str', 'exprs']),
    ('FunctionResult', 'Exists'): ('.exist', ['pure'], ['bool']),
    ('FunctionResult', 'NotFound'): ('.notFound', [], []),
    ('FunctionResult', 'WrongArity'): ('.wrongArity', ['min', 'max'], ['usize', 'usize']),
    ('Arity', 'Polyadic'): ('.polyadic', ['required', 'optional'], ['usize', 'usize']),
    ('Arity', 'Variadic'): ('.variadic', [], []),
    ('Arity', 'None'): ('.none', [], []),
    ('Value', 'Boolean'): ('.bool', [0], ['bool']),
    ('Value', 'String'): ('.str', [0], ['str']),
    ('Value', 'Number'): ('.num', [0], ['f64']),
    ('Value', 'Array'): ('.arr', [0], ['values']),
    ('Ordering', 'Less'): ('.lt', [], []), ('Ordering', 'Equal'): ('.eq', [], []), ('Ordering', 'Greater'): ('.gt', [], []),
    ('Ok',): ('.ok', [0], [None]), ('Err',): ('.error', [0], [None]), ('Some',): ('some', [0], [None]), ('None',): ('none', [], []),
    ('NativeError', 'FunctionNotFound'): ('.functionNotFound', [0], ['str']),
}
OPERATORS = ['Plus', 'Minus', 'Multiply', 'Divide', 'Greater', 'GreaterEqual', 'Less', 'LessEqual', 'Equal', 'NotEqual', 'And', 'Or', 'Xor',
             'Not', 'Div', 'Mod', 'TernaryCondition']
for o in OPERATORS: CTORS[('Operator', o)] = ('.' + lc(o), [], [])
ENUM_OF = {'Expression': 'expr', 'FunctionResult': 'fnres', 'Arity': 'arity', 'Value': 'value', 'Ordering': 'ordering', 'Operator': 'op',
           'NativeError': 'nerr', 'Error': 'err'}
# the two halves of src/error.rs `Error` in the model: validation errors (VErr) and run-time errors (Err)
VERR = {'MissingVariable': ('.missingVariable', ['str']), 'MissingFunction': ('.missingFunction', ['str']),
        'ParamCountMismatch': ('.paramCountMismatch', ['str', 'usize', 'usize', 'usize']), 'InvalidUnaryOperator': ('.invalidUnaryOperator', ['op']),
        'InvalidBinaryOperator': ('.invalidBinaryOperator', ['op']), 'InvalidTernaryOperator': ('.invalidTernaryOperator', ['op']),
        'LiteralNotBoolean': ('.literalNotBoolean', [])}
RERR = {'UndefinedVariable': ('.undefinedVariable', ['str']), 'InvalidUnaryOperator': ('.invalidUnary', ['op']),
        'InvalidBinaryOperator': ('.invalidBinary', ['op']), 'InvalidTernaryOperator': ('.invalidTernary', ['op']),
        'NativeFunctionError': ('.native', ['str', 'nerr'])}

LEAN_TYPE = {'expr': 'Expr N', 'exprs': 'List (Expr N)', 'value': 'Value N', 'values': 'List (Value N)', 'bool': 'Bool', 'usize': 'Nat', 'u8': 'Nat',
             'str': 'Str', 'op': 'Op', 'env': 'Env N', 'fnres': 'FnRes', 'ordering': 'Ordering', 'unit': 'Unit', 'senv': 'StaticEnv N', 'f64': 'N'}
def lean_type(t, errty):
    if t in LEAN_TYPE: return LEAN_TYPE[t]
    if isinstance(t, tuple) and t[0] == 'res': return f'Except {errty} ({lean_type(t[1], errty)})' if ' ' in lean_type(t[1], errty) else f'Except {errty} {lean_type(t[1], errty)}'
    if isinstance(t, tuple) and t[0] == 'opt': return f'Option ({lean_type(t[1], errty)})'
    raise Unrecognised(f'no Lean type for {t}')

RUST_TYPE = {'&impl Environment': 'env', '&Expression': 'expr', '&mut Expression': ('mut', 'expr'), '&mut bool': ('mut', 'bool'), '&[Expression]': 'exprs',
             'Result<()>': ('res', 'unit'), 'Result <()>': ('res', 'unit'), 'bool': 'bool', 'usize': 'usize', 'u8': 'u8', '&Self': 'self', 'Self': 'self',
             '&str': 'str', 'String': 'str', 'FunctionResult': 'fnres', 'Ordering': 'ordering', '()': 'unit', '&[Value]': 'values',
             'NativeResult': ('res', 'value'), 'Option <Rc <Value>>': ('opt', 'value'), 'Result <Value>': ('res', 'value')}
def rust_type(t, selfty):
    t = t.strip()
    if t not in RUST_TYPE: raise Unrecognised(f'type {t}')
    r = RUST_TYPE[t]
    return selfty if r == 'self' else r

# methods of model types used by other modules (their own source translation lives in SrcOrder)
EXTERN_METHODS = {('value', 'as_bool'): ('Value.asBool', 'bool'), ('value', 'is_empty'): ('Value.isEmpty', 'bool')}

class Ctx:
    """one generated Lean module"""
    def __init__(self, errs, errty, selfty=None, module_fns=(), consts=None):
        self.errs, self.errty, self.selfty = errs, errty, selfty
        self.module_fns = dict(module_fns)        # rust fn name -> (lean name, [param types], ret type)
        self.consts = consts or {}
        self.aux = []                             # auxiliary definitions (list recursions) generated for the current function
        self.cur = None
        self.fresh = 0

    # ---- patterns ---------------------------------------------------------------------------------------------------
    def ctor(self, path):
        p = tuple('Value' if s == 'Self' and self.selfty == 'value' else s for s in path)
        if p and p[0] == 'Error':
            if len(p) != 2 or p[1] not in self.errs: raise Unrecognised(f'error variant {"::".join(path)}')
            c, tys = self.errs[p[1]]; return c, list(range(len(tys))), tys, 'err'
        if p not in CTORS: raise Unrecognised(f'constructor {"::".join(path)}')
        c, fields, tys = CTORS[p]
        rty = ENUM_OF.get(p[0]) if len(p) == 2 else {'Ok': 'res', 'Err': 'res', 'Some': 'opt', 'None': 'opt'}[p[0]]
        return c, fields, tys, rty

    def pat(self, p, ty, env, holes=None):
        """pattern -> Lean pattern text; binds names in env with their types.  `holes`: dict filled with field -> binder name for struct
           patterns at top level (used to rebuild a node); wildcards there get the field's name as binder."""
        k = p[0]
        if k == 'pwild': return ', '.join('_' for _ in ty[1]) if isinstance(ty, tuple) and ty[0] == 'tuple' else '_'
        if k == 'pref': return self.pat(p[1], ty, env, holes)
        if k == 'pbind':
            env[p[1]] = (p[1], ty); return p[1]
        if k == 'plit':
            if p[1] == 'num': return p[2]
            if p[1] == 'bool': return p[2]
            raise Unrecognised(f'literal pattern {p[2]}')
        if k == 'ptuple':
            if p[1] == []: return '()'
            tys = ty[1] if isinstance(ty, tuple) and ty[0] == 'tuple' else [None] * len(p[1])
            return ', '.join(self.pat(q, t, env) for q, t in zip(p[1], tys))
        if k == 'pslice':
            et = {'exprs': 'expr', 'values': 'value'}.get(ty)
            return '[' + ', '.join(self.pat(q, et, env) for q in p[1]) + ']'
        if k in ('ppath', 'ptuplestruct', 'pstruct'):
            c, fields, tys, rty = self.ctor(p[1])
            if rty in ('res', 'opt'):
                inner = ty[1] if isinstance(ty, tuple) and ty[0] in ('res', 'opt') else None
                if p[1] == ['Err']: inner = 'err'
                tys = [inner] * len(fields)
            if k == 'ppath':
                if fields: raise Unrecognised(f'constructor {"::".join(p[1])} needs fields')
                return c
            if k == 'ptuplestruct':
                if len(p[2]) != len(fields): raise Unrecognised(f'arity of {"::".join(p[1])}')
                subs = [self.pat(q, t, env) for q, t in zip(p[2], tys)]
            else:
                given = dict(p[2])
                for f in given:
                    if f not in fields: raise Unrecognised(f'field {f} of {"::".join(p[1])}')
                subs = []
                for f, t in zip(fields, tys):
                    q = given.get(f, ('pwild',))
                    while q[0] == 'pref': q = q[1]
                    if holes is not None:
                        if q[0] == 'pwild': q = ('pbind', f)
                        if q[0] != 'pbind': raise Unrecognised('nested pattern in a &mut match')
                        holes[f] = q[1]
                    subs.append(self.pat(q, t, env))
            subs = [s if re.fullmatch(r'[\w.\']+|\[.*\]|\(\)', s) else f'({s})' for s in subs]
            return (c + ' ' + ' '.join(subs)).strip()
        raise Unrecognised(f'pattern {p}')

    # ---- expressions ------------------------------------------------------------------------------------------------
    def paren(self, s):
        return s if re.fullmatch(r'[\w.\']+|\(.*\)|\[.*\]', s) and s.count('(') == s.count(')') and not re.search(r'^\(.*\).*\(.*\)$', s) else f'({s})'

    def strip_refs(self, e):
        while True:
            if e[0] == 'unop' and e[1] in ('&', '*'): e = e[2]
            elif e[0] == 'mcall' and e[2] in ('clone', 'cloned', 'as_ref', 'as_slice', 'to_string', 'as_str', 'to_owned') and not e[4]: e = e[1]
            elif e[0] == 'call' and e[1][0] == 'path' and e[1][1] in (['Box', 'new'], ['Rc', 'new'], ['Box', 'from']) and len(e[2]) == 1: e = e[2][0]
            else: return e

    def tx(self, e, env):
        """expression -> (Lean text, type)"""
        e = self.strip_refs(e)
        k = e[0]
        if k == 'lit':
            if e[1] == 'bool': return e[2], 'bool'
            if e[1] == 'num':
                if re.fullmatch(r'\d+', e[2]): return e[2], 'usize'
                if re.fullmatch(r'0\.0', e[2]): return 'NumOps.zero', 'f64'
            raise Unrecognised(f'literal {e[2]}')
        if k == 'tuple':
            if e[1] == []: return '()', 'unit'
            parts = [self.tx(x, env) for x in e[1]]
            return '(' + ', '.join(p[0] for p in parts) + ')', ('tuple', [p[1] for p in parts])
        if k == 'path':
            p = e[1]
            if len(p) == 1:
                if p[0] in env: return env[p[0]]
                if p[0] in self.consts: return p[0], 'str'
                if p[0] == 'None': return 'none', ('opt', None)
                raise Unrecognised(f'unknown name {p[0]}')
            c, fields, tys, rty = self.ctor(p)
            if fields: raise Unrecognised(f'{"::".join(p)} without arguments')
            return c, rty
        if k == 'struct':
            c, fields, tys, rty = self.ctor(e[1]); given = dict(e[2])
            if set(given) != set(fields): raise Unrecognised(f'fields of {"::".join(e[1])}')
            args = [self.paren(self.tx(given[f], env)[0]) for f in fields]
            return (c + ' ' + ' '.join(args)).strip(), rty
        if k == 'macro':
            if e[1] == 'vec' and e[2] == []: return '[]', 'values'
            if e[1] == 'matches':
                from rsparse import P
                p = P(e[2]); scrut = p.expr(); p.eat(','); pats = p.pattern_alts()
                s, ty = self.tx(scrut, env)
                arms = ' '.join(f'| {self.pat(q, ty, dict(env))} => true' for q in pats)
                return f'(match {s} with {arms} | _ => false)', 'bool'
            raise Unrecognised(f'macro {e[1]}!')
        if k == 'unop':
            s, t = self.tx(e[2], env)
            if e[1] == '!' and t == 'bool': return f'!{self.paren(s)}', 'bool'
            raise Unrecognised(f'unary {e[1]} on {t}')
        if k == 'binop':
            l, lt = self.tx(e[2], env); r, rt = self.tx(e[3], env); op = e[1]
            if op in ('==', '!='):
                neg = '!' if op == '!=' else ''
                t = lt or rt
                if t in ('bool', 'str', 'usize', 'u8', 'ordering', 'op'): body = f'{self.paren(l)} == {self.paren(r)}'
                elif t == 'f64': body = f'NumOps.beq {self.paren(l)} {self.paren(r)}'
                elif t == 'values': body = f'{self.fn("eq")}List {self.paren(l)} {self.paren(r)}'; self.need_eqlist = True
                elif t == 'value': body = f'{self.fn("eq")} {self.paren(l)} {self.paren(r)}'
                else: raise Unrecognised(f'== on {t}')
                return (f'!({body})' if neg else f'({body})'), 'bool'
            if op in ('<', '>', '<=', '>=') and lt in ('usize', 'u8') and rt in ('usize', 'u8'): return f'decide ({l} {op.replace("<=", "≤").replace(">=", "≥")} {r})', 'bool'
            if op in ('||', '&&') and lt == 'bool' and rt == 'bool': return f'({l} {op} {r})', 'bool'
            if op == '+' and lt == 'usize' and rt == 'usize': return f'{l} + {r}', 'usize'
            raise Unrecognised(f'operator {op} on {lt}, {rt}')
        if k == 'field':
            s, t = self.tx(e[1], env)
            if t == 'func' and e[2] in ('arity', 'pure', 'name'): return f'{s}.{e[2]}', {'arity': 'arity', 'pure': 'bool', 'name': 'str'}[e[2]]
            if t == 'func' and e[2] == 'func': return f'{s}.run', 'nativefn'
            if t == 'senv' and e[2] in ('functions', 'variables'): return f'{s}.{ {"functions": "fns", "variables": "vars"}[e[2]] }', e[2]
            raise Unrecognised(f'field {e[2]} of {t}')
        if k == 'call':
            f = e[1]
            if f[0] == 'path':
                p = f[1]
                if len(p) == 1 and p[0] in self.module_fns:
                    lname, ptys, rty = self.module_fns[p[0]]
                    args = [self.paren(self.tx(a, env)[0]) for a in e[2]]
                    return f'{lname} ' + ' '.join(args), rty
                if len(p) == 2 and p[0] in ('Value', 'Self') and p[1] in self.module_fns:
                    lname, ptys, rty = self.module_fns[p[1]]
                    return f'{lname} ' + ' '.join(self.paren(self.tx(a, env)[0]) for a in e[2]), rty
                if p == ['execute'] and len(e[2]) == 2:
                    return f'evalR {self.paren(self.tx(e[2][0], env)[0])} {self.paren(self.tx(e[2][1], env)[0])}', ('res', 'value')
                if p == ['get_env_key'] and len(e[2]) == 1: return f'fold {self.paren(self.tx(e[2][0], env)[0])}', 'str'
                if p == ['f64', 'from'] and len(e[2]) == 1:
                    s, t = self.tx(e[2][0], env)
                    if t == 'bool': return f'NumOps.ofBool {self.paren(s)}', 'f64'
                if p == ['String', 'new'] and not e[2]: return '([] : Str)', 'str'
                if len(p) == 1 and p[0] in env and env[p[0]][1] == 'nativefn':
                    return f'{env[p[0]][0]} ' + ' '.join(self.paren(self.tx(a, env)[0]) for a in e[2]), ('res', 'value')
                if p[0] in ('Ok', 'Err', 'Some') or len(p) == 2:
                    c, fields, tys, rty = self.ctor(p)
                    if len(fields) != len(e[2]): raise Unrecognised(f'arity of {"::".join(p)}')
                    parts = [self.tx(a, env) for a in e[2]]
                    if rty in ('res', 'opt'):
                        inner = parts[0][1] if parts else None
                        rty = (rty, None if p == ['Err'] else inner)
                    return (c + ' ' + ' '.join(self.paren(s) for s, _ in parts)).strip(), rty
            raise Unrecognised(f'call of {f}')
        if k == 'mcall':
            return self.method(e, env)
        if k == 'block':
            return self.block(e, env)
        if k == 'if':
            c, ct = self.tx(e[1], env)
            if ct != 'bool': raise Unrecognised('if on a non-bool')
            if e[3] is None: raise Unrecognised('if without else in expression position')
            a, at = self.tx(e[2], dict(env)); b, bt = self.tx(e[3], dict(env))
            return self.ite(c, a, b), self.join(at, bt)
        if k == 'iflet':
            s, st = self.tx(e[2], env); env1 = dict(env); p = self.pat(e[1], st, env1)
            a, at = self.tx(e[3], env1); b, bt = self.tx(e[4], dict(env)) if e[4] else ('()', 'unit')
            return f'match {s} with\n' + self.after(f'| {p} =>', a) + '\n' + self.after('| _ =>', b), self.join(at, bt)
        if k == 'match':
            return self.match(e, env)
        if k == 'closure': raise Unrecognised('closure outside a known combinator')
        raise Unrecognised(f'expression kind {k}')

    def join(self, a, b):
        if a == b: return a
        if isinstance(a, tuple) and isinstance(b, tuple) and a[0] == b[0]: return (a[0], a[1] if a[1] is not None else b[1])
        return a if a is not None else b

    def fn(self, rust_name):
        if rust_name not in self.module_fns: raise Unrecognised(f'function {rust_name} is not part of the generated module')
        return self.module_fns[rust_name][0]

    def method(self, e, env):
        _, recv, name, tf, args = e
        # receiver-independent shapes first
        if name == 'ok' and not args and recv[0] == 'mcall' and recv[2] == 'parse' and recv[3] and 'f64' in recv[3]:
            s, t = self.tx(recv[1], env)
            if t != 'str': raise Unrecognised('parse::<f64> on a non-string')
            return f'NumOps.parse (N := N) {self.paren(s)}', ('opt', 'f64')
        if name == 'try_for_each' and recv[0] == 'mcall' and recv[2] == 'iter' and len(args) == 1 and args[0][0] == 'closure':
            xs, xt = self.tx(recv[1], env)
            return self.each(xs, xt, args[0], env), ('res', 'unit')
        if name == 'all' and recv[0] == 'mcall' and recv[2] == 'iter' and len(args) == 1 and args[0][0] == 'closure':
            xs, xt = self.tx(recv[1], env); cl = args[0]
            env1 = dict(env); p = self.pat(cl[1][0], {'exprs': 'expr', 'values': 'value'}.get(xt), env1)
            b, bt = self.tx(cl[2], env1)
            return f'List.all {self.paren(xs)} (fun {p} => {b})', 'bool'
        s, t = self.tx(recv, env)
        if name == 'len' and not args and t in ('exprs', 'values'): return f'{self.paren(s)}.length', 'usize'
        if name == 'and_then' and len(args) == 1 and args[0][0] == 'closure' and isinstance(t, tuple) and t[0] in ('res', 'opt'):
            cl = args[0]; env1 = dict(env)
            p = self.pat(cl[1][0], t[1], env1) if cl[1] else '()'
            b, bt = self.tx(cl[2], env1)
            return f'{self.paren(s)} >>= fun {p} => {b}', bt
        if name == 'unwrap_or_else' and len(args) == 1 and args[0][0] == 'closure' and not args[0][1] and isinstance(t, tuple) and t[0] == 'opt':
            b, bt = self.tx(args[0][2], dict(env))
            return f'Option.getD {self.paren(s)} {self.paren(b)}', t[1] or bt
        if name == 'ok_or' and len(args) == 1 and isinstance(t, tuple) and t[0] == 'opt':
            b, bt = self.tx(args[0], env)
            return f'(match {s} with | some v => .ok v | none => .error {self.paren(b)})', ('res', t[1])
        if name == 'partial_cmp' and len(args) == 1:
            o, ot = self.tx(args[0], env)
            if t == 'bool': return f'some (cmpBool {self.paren(s)} {self.paren(o)})', ('opt', 'ordering')
            if t == 'str': return f'some (cmpStr {self.paren(s)} {self.paren(o)})', ('opt', 'ordering')
            if t == 'f64': return f'NumOps.pcmp {self.paren(s)} {self.paren(o)}', ('opt', 'ordering')
            if t == 'values': self.need_cmplist = True; return f'some ({self.fn("cmp")}List {self.paren(s)} {self.paren(o)})', ('opt', 'ordering')
            raise Unrecognised(f'partial_cmp on {t}')
        if name == 'cmp' and len(args) == 1:
            o, ot = self.tx(args[0], env)
            if t in ('u8', 'usize'): return f'cmpNat {self.paren(s)} {self.paren(o)}', 'ordering'
            if t == 'value': return f'{self.fn("cmp")} {self.paren(s)} {self.paren(o)}', 'ordering'
            raise Unrecognised(f'cmp on {t}')
        if t == 'env' and name == 'variable_exists' and len(args) == 1: return f'{s}.varExists {self.paren(self.tx(args[0], env)[0])}', 'bool'
        if t == 'env' and name == 'function_exists' and len(args) == 2:
            return f'{s}.fnExists {self.paren(self.tx(args[0], env)[0])} {self.paren(self.tx(args[1], env)[0])}', 'fnres'
        if t in ('functions', 'variables') and name == 'get' and len(args) == 1:
            return f'alGet {self.paren(self.tx(args[0], env)[0])} {self.paren(s)}', ('opt', 'func' if t == 'functions' else 'value')
        if t in ('functions', 'variables') and name == 'contains_key' and len(args) == 1:
            return f'(alGet {self.paren(self.tx(args[0], env)[0])} {self.paren(s)}).isSome', 'bool'
        if name == 'to_lowercase' and not args and t == 'str': return f'lower {self.paren(s)}', 'str'
        if t == 'value' and name in self.module_fns and name not in ('cmp',):
            lname, ptys, rty = self.module_fns[name]
            return (f'{lname} {self.paren(s)} ' + ' '.join(self.paren(self.tx(a, env)[0]) for a in args)).strip(), rty
        if (t, name) in EXTERN_METHODS and not args:
            ln, rt = EXTERN_METHODS[(t, name)]; return f'{ln} {self.paren(s)}', rt
        raise Unrecognised(f'method {name} on {t}')

    def each(self, xs, xt, cl, env):
        """`xs.iter().try_for_each(|x| BODY)`  ->  auxiliary list recursion"""
        if xt not in ('exprs',): raise Unrecognised(f'try_for_each over {xt}')
        name = self.cur + '_each'
        env1 = dict(env); p = self.pat(cl[1][0], 'expr', env1)
        b, bt = self.tx(cl[2], env1)
        caps = [v for v in self.cur_params if re.search(r'\b' + re.escape(v[0]) + r'\b', b) and v[0] != p]
        sig = ' '.join(f'({n} : {lean_type(t, self.errty)})' for n, t in caps)
        self.aux.append(f'def {name} {sig} : List (Expr N) → Except {self.errty} Unit\n  | [] => .ok ()\n  | {p} :: rest => ({b}) >>= fun () => {name} {" ".join(n for n, _ in caps)} rest')
        self.module_fns_dyn = name
        return f'{name} {" ".join(n for n, _ in caps)} {self.paren(xs)}'

    def block(self, e, env):
        env = dict(env); _, stmts, tail = e
        out = []; closers = 0
        for st in stmts:
            if st[0] == 'let':
                rhs = st[2]
                if rhs[0] == 'try':
                    s, t = self.tx(rhs[1], env)
                    if not (isinstance(t, tuple) and t[0] == 'res'): raise Unrecognised('? on a non-Result')
                    p = self.pat(st[1], t[1], env)
                    out.append(f'({s}) >>= fun {p} =>')
                else:
                    s, t = self.tx(rhs, env)
                    p = self.pat(st[1], t, env)
                    out.append(self.after(f'let {p} :=', s))
            else: raise Unrecognised(f'statement {st[1][0]} in a pure block')
        if tail is None: raise Unrecognised('block without value')
        s, t = self.tx(tail, env)
        return ('\n'.join(out) + '\n' if out else '') + s, t

    def compatible(self, p, q):
        """can a value matching pattern p match pattern q?  (constructor heads only)"""
        def head(x):
            while x[0] == 'pref': x = x[1]
            return x
        p, q = head(p), head(q)
        if q[0] in ('pwild', 'pbind') or p[0] in ('pwild', 'pbind'): return True
        if p[0] == 'ptuple' and q[0] == 'ptuple': return all(self.compatible(a, b) for a, b in zip(p[1], q[1]))
        if p[0] in ('ppath', 'ptuplestruct', 'pstruct') and q[0] in ('ppath', 'ptuplestruct', 'pstruct'):
            if p[1] != q[1]: return False
            if p[0] == 'ptuplestruct' and q[0] == 'ptuplestruct': return all(self.compatible(a, b) for a, b in zip(p[2], q[2]))
            return True
        return True

    def match(self, e, env, arm_fn=None):
        """match expression; `arm_fn(body, env)` translates an arm body (default: pure expression)"""
        _, scrut, arms = e
        arm_fn = arm_fn or (lambda b, en: self.tx(b, en))
        sc = self.strip_refs(scrut)
        if sc[0] == 'tuple':
            parts = [self.tx(x, env) for x in sc[1]]; stext = ', '.join(p[0] for p in parts); sty = ('tuple', [p[1] for p in parts])
        else:
            stext, sty = self.tx(sc, env)
        lines, rty = [], None
        flat = [(p, g, b) for pats, g, b in arms for p in pats]
        consumed = set()
        for i, (p, g, b) in enumerate(flat):
            if i in consumed: continue
            env1 = dict(env); pt = self.pat(p, sty, env1)
            if g is None:
                s, t = arm_fn(b, env1)
            else:
                gs, gt = self.tx(g, env1)
                s1, t = arm_fn(b, env1)
                rest = [(q, g2, b2) for q, g2, b2 in flat[i + 1:] if self.compatible(p, q)]
                if not rest: raise Unrecognised('guarded arm without a following arm')
                if self.irrefutable_like(p, rest[0]):
                    fall, _ = self.fall_direct(p, rest[0], sty, env1, arm_fn)
                    if self.irrefutable_like(rest[0][0], (p, None, None)): consumed.add(flat.index(rest[0]))      # same shape: that arm is reachable only from here
                else:
                    fall, _ = self.match(('match', scrut, [([q], g2, b2) for q, g2, b2 in rest]), env1, arm_fn)
                s = self.ite(gs, s1, fall)
            rty = self.join(rty, t) if rty is not None else t
            lines.append(self.after(f'| {pt} =>', s))
        return f'match {stext} with\n' + '\n'.join(lines), rty

    def irrefutable_like(self, p, arm):
        """the next arm has the same constructor as p with only binders / wildcards below: fall through without re-matching"""
        q, g2, _ = arm
        def flat(x):
            while x[0] == 'pref': x = x[1]
            return x
        p, q = flat(p), flat(q)
        if g2 is not None: return False
        if q[0] in ('pwild',): return True
        if p[0] != q[0] or p[0] not in ('pstruct', 'ptuplestruct', 'ppath') or p[1] != q[1]: return False
        subs = [s for _, s in q[2]] if q[0] == 'pstruct' else (q[2] if q[0] == 'ptuplestruct' else [])
        return all(flat(s)[0] in ('pwild', 'pbind') for s in subs)

    def fall_direct(self, p, arm, sty, env1, arm_fn):
        q, _, b = arm
        def flat(x):
            while x[0] == 'pref': x = x[1]
            return x
        p, q = flat(p), flat(q)
        env2 = dict(env1)
        if q[0] == 'pstruct':
            pb = {f: flat(s) for f, s in p[2]}
            for f, s in q[2]:
                s = flat(s)
                if s[0] == 'pbind':
                    src = pb.get(f)
                    if src is None or src[0] != 'pbind': raise Unrecognised('fall-through arm binds a field the guarded arm does not bind')
                    env2[s[1]] = env1[src[1]]
        elif q[0] == 'ptuplestruct':
            for a, s in zip(p[2], q[2]):
                a, s = flat(a), flat(s)
                if s[0] == 'pbind':
                    if a[0] != 'pbind': raise Unrecognised('fall-through arm binds a field the guarded arm does not bind')
                    env2[s[1]] = env1[a[1]]
        return arm_fn(b, env2)

    def indent(self, s):
        return s.replace('\n', '\n  ')
    def after(self, head, s):
        """`head s` on one line, or `head` followed by the parenthesised multi-line `s` on the next lines, uniformly indented"""
        if '\n' not in s and not s.startswith('match '): return f'{head} {s}'
        return f'{head}\n    ' + self.indent(self.indent(self.wrap(s)))
    def ite(self, c, a, b):
        if '\n' not in a + b and not (a + b).startswith('match '): return f'if {c} then {a} else {b}'
        return f'if {c} then\n  {self.indent(self.wrap(a))}\nelse\n  {self.indent(self.wrap(b))}'
    def wrap(self, s):
        """a multi-line match / let as an arm body or branch is parenthesised (match alternatives are column sensitive in Lean)"""
        return '(' + s.replace('\n', '\n ') + ')' if ('\n' in s or s.startswith('match ')) else s

    # ---- pure function -> Lean def ----------------------------------------------------------------------------------
    def pure_fn(self, f, lean_name, extra_params=()):
        self.cur = lean_name; self.aux = []
        params = [(n, rust_type(t, self.selfty)) for n, t in f['params']]
        ret = rust_type(f['ret'], self.selfty)
        env = {n: (n, t) for n, t in params}
        env.update({n: (n, t) for n, t in extra_params})
        self.cur_params = list(extra_params) + params
        body, bt = self.tx(f['body'], env)
        sig = ' '.join(f'({n} : {lean_type(t, self.errty)})' for n, t in self.cur_params)
        return f'def {lean_name} {sig} : {lean_type(ret, self.errty)} :=\n  {self.indent(body)}', list(self.aux)


# =====================================================================================================================
# &mut functions (src/optimizer.rs): functional translation of borrows

class MutCtx(Ctx):
    """A function `fn f(env, expression: &mut Expression, found_const: &mut bool) [-> Result<()>]` becomes
       `f env expression found_const : Expr N × Bool [× Option Err]` returning the final values of the `&mut` parameters."""

    def mut_fn(self, f, lean_name):
        self.cur = lean_name; self.aux = []
        params = [(n, rust_type(t, self.selfty)) for n, t in f['params']]
        self.ret_res = rust_type(f['ret'], self.selfty) == ('res', 'unit')
        self.muts = [n for n, t in params if isinstance(t, tuple) and t[0] == 'mut']
        params = [(n, t[1] if isinstance(t, tuple) and t[0] == 'mut' else t) for n, t in params]
        self.cur_params = params
        env = {n: (n, t) for n, t in params}
        self.tree = next(n for n in self.muts if env[n][1] == 'expr')
        body = self.stmts_of(f['body'])
        text = self.run(body, env, {'node': None}, self.finish)
        sig = ' '.join(f'({n} : {lean_type(t, self.errty)})' for n, t in params)
        rty = ' × '.join(lean_type(env[n][1], self.errty) for n in self.muts) + (' × Option Err' if self.ret_res else '')
        return f'def {lean_name} {sig} : {rty} :=\n  {self.indent(text)}', list(self.aux)

    def result(self, env, st, err):
        vals = [self.cur_tree(env, st) if n == self.tree else env[n][0] for n in self.muts]
        return '(' + ', '.join(vals + ([err] if self.ret_res else [])) + ')'
    def finish(self, env, st): return self.result(env, st, 'none')

    def cur_tree(self, env, st):
        """the value `*expression` has now: the node rebuilt from the current values of its borrowed children, or the assigned value"""
        if st['node'] is None: return env[self.tree][0]
        c, fields, holes = st['node']
        return (c + ' ' + ' '.join(self.paren(env[holes[f]][0]) for f in fields)).strip()

    def stmts_of(self, b):
        if b[0] != 'block': return [('expr', b)]
        return list(b[1]) + ([('expr', b[2])] if b[2] is not None else [])

    def run(self, stmts, env, st, k):
        """translate a statement list; `k(env, st)` produces the text of what follows"""
        if not stmts: return k(env, st)
        s, rest = stmts[0], stmts[1:]
        cont = lambda env2, st2: self.run(rest, env2, st2, k)
        if s[0] == 'let':
            if s[1][0] == 'pbind' and s[2][0] == 'lit':                      # let mut flag = false;
                v, t = self.tx(s[2], env); env = dict(env); env[s[1][1]] = (s[1][1], t)
                if s[1][1] not in self.muts: self.locals = getattr(self, 'locals', []) + [s[1][1]]
                return f'let {s[1][1]} := {v}\n' + cont(env, st)
            raise Unrecognised('let in a &mut function')
        e = s[1]
        if e[0] == 'tuple' and e[1] == []: return cont(env, st)              # `()`
        if e[0] == 'call' and e[1] == ('path', ['Ok']) and e[2] == [('tuple', [])] and not rest: return k(env, st)      # trailing Ok(())
        if e[0] == 'assign': return self.assign(e, env, st, cont)
        if e[0] == 'try' and e[1][0] == 'call': return self.call_stmt(e[1], True, env, st, cont)
        if e[0] == 'call': return self.call_stmt(e, False, env, st, cont)
        if e[0] == 'for': return self.for_stmt(e, env, st, cont)
        if e[0] == 'block': return self.run(self.stmts_of(e) + rest, env, st, k)
        if e[0] == 'match': return self.match_stmt(e, env, st, cont)
        if e[0] == 'iflet':
            arms = [([e[1]], None, e[3])] + ([([('pwild',)], None, e[4])] if e[4] else [([('pwild',)], None, ('tuple', []))])
            return self.match_stmt(('match', e[2], arms), env, st, cont)
        if e[0] == 'if':
            c, ct = self.tx(e[1], env)
            a = self.run(self.stmts_of(e[2]), dict(env), dict(st), cont)
            b = self.run(self.stmts_of(e[3]) if e[3] else [], dict(env), dict(st), cont)
            return self.ite(c, a, b)
        if e[0] == 'loop': return self.loop_stmt(e, env, st, cont)
        if e[0] == 'return':
            if e[1] == ('call', ('path', ['Ok']), [('tuple', [])]): return self.on_return(env, st)
            raise Unrecognised('return of something else than Ok(())')
        raise Unrecognised(f'statement {e[0]}')

    def assign(self, e, env, st, cont):
        lhs = e[1]
        target = self.strip_refs(lhs)
        if target[0] != 'path' or len(target[1]) != 1: raise Unrecognised('assignment target')
        name = target[1][0]
        if name == self.tree:
            return self.with_tries(e[2], env, st, lambda text, env2: (lambda env3, st3: f'let {name} := {text}\n' + cont(env3, st3))(self.bind(env2, name, 'expr'), {'node': None}))
        if name in self.muts or name in getattr(self, 'locals', []):
            v, t = self.tx(e[2], env)
            return f'let {name} := {v}\n' + cont(self.bind(env, name, t), st)
        raise Unrecognised(f'assignment to {name}')

    def bind(self, env, name, ty):
        env = dict(env); env[name] = (name, ty); return env

    def with_tries(self, e, env, st, k):
        """translate expression e which may contain `execute(env, <tree>)?`: hoist it into a match whose error branch returns"""
        found = []
        def walk(x):
            if isinstance(x, tuple):
                if x and x[0] == 'try':
                    found.append(x); return ('path', ['__try%d' % (len(found) - 1)])
                return tuple(walk(y) for y in x)
            if isinstance(x, list): return [walk(y) for y in x]
            return x
        e2 = walk(e)
        if len(found) > 1: raise Unrecognised('more than one ? in one expression')
        env2 = dict(env)
        # the tree parameter read as a VALUE inside the expression is the rebuilt node
        env_read = dict(env); env_read[self.tree] = (self.cur_tree(env, st), 'expr')
        if not found:
            text, t = self.tx(e, env_read); return k(text, env)
        inner, t = self.tx(found[0][1], env_read)
        if not (isinstance(t, tuple) and t[0] == 'res'): raise Unrecognised('? on a non-Result')
        env_read['__try0'] = ('v', t[1])
        text, _ = self.tx(e2, env_read)
        if not self.ret_res: raise Unrecognised('? in a function that does not return Result')
        return (f'match {inner} with\n| .error er => {self.result(env, st, "some er")}\n' + self.after('| .ok v =>', k(text, env)))

    def call_stmt(self, e, tried, env, st, cont):
        f = e[1]
        if f[0] != 'path' or len(f[1]) != 1 or f[1][0] not in self.module_fns: raise Unrecognised(f'call statement {f}')
        lname, ptys, rty = self.module_fns[f[1][0]]
        args, outs = [], []
        for a, pt in zip(e[2], ptys):
            a0 = self.strip_refs(a)
            if isinstance(pt, tuple) and pt[0] == 'mut':
                if a0[0] != 'path' or len(a0[1]) != 1: raise Unrecognised('&mut argument is not a place')
                n = a0[1][0]; outs.append(n)
                args.append(self.paren(self.cur_tree(env, st)) if (n == self.tree) else env[n][0])
            else: args.append(self.paren(self.tx(a0, env)[0]))
        callee_res = rty == ('res', 'unit')
        if tried != callee_res: raise Unrecognised('`?` does not match the callee result type')
        env2 = dict(env); st2 = dict(st)
        for n in outs:
            env2[n] = (n, env[n][1])
            if n == self.tree: st2 = {'node': None}
        call = f'{lname} ' + ' '.join(args)
        if not callee_res:
            return f'match {call} with\n' + self.after(f'| ({", ".join(outs)}) =>', cont(env2, st2))
        return (f'match {call} with\n| ({", ".join(outs)}, some er) => {self.on_error(env2, st2)}\n' + self.after(f'| ({", ".join(outs)}, none) =>', cont(env2, st2)))

    def on_error(self, env, st): return self.result(env, st, 'some er')
    def on_return(self, env, st): return self.result(env, st, 'none')

    def for_stmt(self, e, env, st, cont):
        _, pat, it, body = e
        it0 = self.strip_refs(it)
        if pat[0] != 'pbind' or it0[0] != 'path' or len(it0[1]) != 1: raise Unrecognised('for loop shape')
        xs = it0[1][0]; x = pat[1]
        if env.get(xs, (None, None))[1] != 'exprs': raise Unrecognised('for over a non-list')
        stmts = self.stmts_of(body)
        if len(stmts) != 1 or stmts[0][0] != 'expr': raise Unrecognised('for body')
        c = stmts[0][1]; tried = c[0] == 'try'
        if tried: c = c[1]
        if c[0] != 'call' or c[1][0] != 'path' or c[1][1][0] not in self.module_fns: raise Unrecognised('for body is not a call of a module function')
        lname, ptys, rty = self.module_fns[c[1][1][0]]
        callee_res = rty == ('res', 'unit')
        if tried != callee_res: raise Unrecognised('`?` does not match the callee result type')
        # the loop threads every &mut state variable other than the element through the calls
        others, pre = [], []
        for a, pt in zip(c[2], ptys):
            a0 = self.strip_refs(a)
            if isinstance(pt, tuple) and pt[0] == 'mut':
                if a0 == ('path', [x]): pre.append('X')
                else: others.append(a0[1][0]); pre.append(a0[1][0])
            else:
                pre.append(self.tx(a0, env)[0])
        name = self.cur + '_each'
        fixed = [p for p in pre if p != 'X' and p not in others]
        fixed_sig = ' '.join(f'({n} : {lean_type(env[n][1], self.errty)})' for n in fixed)
        oth_sig = ' '.join(f'({n} : {lean_type(env[n][1], self.errty)})' for n in others)
        oth_ty = ' × '.join(lean_type(env[n][1], self.errty) for n in others)
        call = f'{lname} ' + ' '.join('x' if p == 'X' else p for p in pre)
        outs = ['x' if p == 'X' else p for p, pt in zip(pre, ptys) if isinstance(pt, tuple) and pt[0] == 'mut']
        oth = ', '.join(others)
        if callee_res:
            self.aux.append(
                f'def {(name + " " + fixed_sig).strip()} : List (Expr N) → {" → ".join(lean_type(env[n][1], self.errty) for n in others)} → List (Expr N) × {oth_ty} × Option Err\n'
                f'  | [], {oth} => ([], {oth}, none)\n'
                f'  | x :: rest, {oth} =>\n    match {call} with\n'
                f'    | ({", ".join(outs)}, some er) => (x :: rest, {oth}, some er)\n'
                f'    | ({", ".join(outs)}, none) =>\n      match {(name + " " + " ".join(fixed)).strip()} rest {" ".join(others)} with\n'
                f'      | (rest, {oth}, err) => (x :: rest, {oth}, err)')
            env2 = dict(env)
            return (re.sub(' +', ' ', f'match {name} {" ".join(fixed)} {xs} {" ".join(others)} with\n') + f'| ({xs}, {oth}, some er) => {self.on_error(env2, st)}\n'
                    + self.after(f'| ({xs}, {oth}, none) =>', cont(env2, st)))
        self.aux.append(
            f'def {(name + " " + fixed_sig).strip()} : List (Expr N) → {" → ".join(lean_type(env[n][1], self.errty) for n in others)} → List (Expr N) × {oth_ty}\n'
            f'  | [], {oth} => ([], {oth})\n'
            f'  | x :: rest, {oth} =>\n    match {call} with\n'
            f'    | ({", ".join(outs)}) =>\n      match {(name + " " + " ".join(fixed)).strip()} rest {" ".join(others)} with\n'
            f'      | (rest, {oth}) => (x :: rest, {oth})')
        return re.sub(' +', ' ', f'match {name} {" ".join(fixed)} {xs} {" ".join(others)} with\n') + self.after(f'| ({xs}, {oth}) =>', cont(dict(env), st))

    def match_stmt(self, e, env, st, cont):
        _, scrut, arms = e
        sc = self.strip_refs(scrut)
        top = sc == ('path', [self.tree]) and st['node'] is None
        def arm_fn_for(holes_of):
            def arm_fn(b, env1):
                st1 = dict(st)
                if top and holes_of.get('cur'): st1 = {'node': holes_of['cur']}
                return self.run(self.stmts_of(b) if b[0] == 'block' else [('expr', b)], env1, st1, cont), None
            return arm_fn
        if not top:
            return self.match(('match', scrut, arms), self.read_env(env, st), arm_fn_for({}))[0]
        # match on the &mut tree itself: the arm's bindings are places inside the node
        stext = env[self.tree][0]
        flat = [(p, g, b) for pats, g, b in arms for p in pats]
        lines = []; consumed = set()
        for i, (p, g, b) in enumerate(flat):
            if i in consumed: continue
            env1 = dict(env); holes = {}
            while p[0] == 'pref': p = p[1]
            if p[0] == 'pwild': pt, node = '_', None
            elif p[0] == 'pstruct':
                pt = self.pat(p, 'expr', env1, holes); c, fields, tys, _ = self.ctor(p[1]); node = (c, fields, holes)
            else: raise Unrecognised('arm pattern of the &mut match')
            hof = {'cur': node}
            body = arm_fn_for(hof)(b, env1)[0]
            if g is not None:
                gs, gt = self.tx(g, env1)
                nxt = [(q, g2, b2) for q, g2, b2 in flat[i + 1:] if self.compatible(p, q)]
                if not nxt or nxt[0][1] is not None: raise Unrecognised('guarded arm of the &mut match without an unguarded arm of the same shape after it')
                q, _, b2 = nxt[0]
                while q[0] == 'pref': q = q[1]
                if q[0] == 'pstruct' and q[1] == p[1]: consumed.add(flat.index(nxt[0]))      # same constructor: reachable only from here
                if q[0] == 'pwild': env2 = dict(env1)
                elif q[0] == 'pstruct' and q[1] == p[1]:
                    env2 = dict(env1)
                    for f, sp in q[2]:
                        while sp[0] == 'pref': sp = sp[1]
                        if sp[0] == 'pbind': env2[sp[1]] = env1[holes[f]]
                        elif sp[0] != 'pwild': raise Unrecognised('nested pattern in a &mut match')
                else: raise Unrecognised('fall-through arm shape')
                # in the fall-through arm the places are the same; names of its binders are aliases of the guarded arm's
                alias = {sp[1]: holes[f] for f, sp in (q[2] if q[0] == 'pstruct' else []) if sp[0] == 'pbind' and sp[1] != holes[f]}
                if alias: raise Unrecognised('fall-through arm renames the bindings')
                fall = arm_fn_for(hof)(b2, env2)[0]
                body = self.ite(gs, body, fall)
            lines.append(self.after(f'| {pt} =>', body))
        return f'match {stext} with\n' + '\n'.join(lines)

    def read_env(self, env, st):
        env = dict(env); env[self.tree] = (self.cur_tree(env, st), 'expr'); return env

    def loop_stmt(self, e, env, st, cont):
        """`loop { body }` as the last statement: recursion on fuel over the mutable state"""
        state = self.muts + getattr(self, 'locals', [])
        name = self.cur + '_loop'
        fixed = [n for n, t in self.cur_params if n not in self.muts]
        self.in_loop = (name, fixed, state)
        envl = dict(env)
        body = self.run(self.stmts_of(e[1]), envl, {'node': None},
                        lambda env2, st2: f'{name} {" ".join(fixed)} fuel {" ".join(env2[n][0] for n in state)}')
        sig = ' '.join(f'({n} : {lean_type(env[n][1], self.errty)})' for n in fixed)
        tys = ' → '.join(lean_type(env[n][1], self.errty) for n in state)
        self.aux.append(f'def {name} {sig} : Nat → {tys} → OptRes N\n  | 0, {", ".join("_" for _ in state)} => .outOfFuel\n'
                        f'  | fuel + 1, {", ".join(state)} =>\n    {self.indent(self.indent(body))}')
        self.loop_fn = True
        return f'{name} {" ".join(fixed)} fuel {" ".join(env[n][0] for n in state)}'


class LoopCtx(MutCtx):
    """`optimize`: result is OptRes (ok tree | err tree error | outOfFuel)"""
    def result(self, env, st, err):
        t = self.cur_tree(env, st)
        return f'.ok {self.paren(t)}' if err == 'none' else f'.err {self.paren(t)} er'
    def mut_fn(self, f, lean_name):
        self.cur = lean_name; self.aux = []; self.locals = []
        params = [(n, rust_type(t, self.selfty)) for n, t in f['params']]
        self.ret_res = True
        self.muts = [n for n, t in params if isinstance(t, tuple) and t[0] == 'mut']
        params = [(n, t[1] if isinstance(t, tuple) and t[0] == 'mut' else t) for n, t in params]
        self.cur_params = params
        env = {n: (n, t) for n, t in params}
        self.tree = self.muts[0]
        text = self.run(self.stmts_of(f['body']), env, {'node': None}, self.finish)
        sig = ' '.join(f'({n} : {lean_type(t, self.errty)})' for n, t in params if n not in self.muts)
        return f'def {lean_name} {sig} (fuel : Nat) ({self.tree} : Expr N) : OptRes N :=\n  {self.indent(text)}', list(self.aux)


# =====================================================================================================================

HEADER = ('/-\n  SlacModel.Generated.%s — GENERATED on every check run by /verif/tools/rs2lean.py from the CURRENT text of\n  /repo/src/%s.  Do not edit.\n'
          '  %s\n-/\nimport %s\nset_option autoImplicit false\nset_option linter.unusedVariables false\nnamespace Slac.Generated.%s\nvariable {N : Type} [NumOps N]\n\n')

def mutual(defs):
    defs = list(dict.fromkeys(defs))
    return 'mutual\n' + '\n'.join(defs) + '\nend\n' if len(defs) > 1 else defs[0] + '\n'

def gen_validate(src):
    s = open(os.path.join(src, 'validate.rs')).read()
    fns = {'check_variables_and_functions': ('check_variables_and_functions', ['env', 'expr'], ('res', 'unit')),
           'check_expressions': ('check_expressions', ['env', 'exprs'], ('res', 'unit')),
           'check_boolean_result': ('check_boolean_result', ['expr'], ('res', 'unit'))}
    c = Ctx(VERR, 'VErr', module_fns=fns)
    d1, a1 = c.pure_fn(find_fn(s, 'check_variables_and_functions'), 'check_variables_and_functions')
    d2, a2 = c.pure_fn(find_fn(s, 'check_expressions'), 'check_expressions')
    d3, a3 = c.pure_fn(find_fn(s, 'check_boolean_result'), 'check_boolean_result')
    body = mutual([d1, d2] + a1 + a2) + '\n' + mutual([d3] + a3)
    return HEADER % ('SrcValidate', 'validate.rs', 'SlacProps/C10Source.lean and C11Source.lean prove that `checkVF` / `checkBool` of SlacModel/Validate.lean are these functions.',
                     'SlacModel.Validate', 'SrcValidate') + body + '\nend Slac.Generated.SrcValidate\n'

def gen_optimizer(src):
    s = open(os.path.join(src, 'optimizer.rs')).read()
    name = find_const(open(os.path.join(src, 'stdlib', 'common.rs')).read(), 'TERNARY_IF_THEN')
    if not re.fullmatch(r'[ -~]*', name) or '\\' in name or "'" in name: raise Unrecognised('TERNARY_IF_THEN is not plain ASCII')
    M, B, E = ('mut', 'expr'), ('mut', 'bool'), 'env'
    fns = {'expressions_are_const': ('expressions_are_const', ['exprs'], 'bool'),
           'transform_ternary': ('transform_ternary', [M, B], 'unit'),
           'fold_constants': ('fold_constants', [E, M, B], ('res', 'unit'))}
    out = [f'/-- `TERNARY_IF_THEN` (src/stdlib/common.rs) -/\ndef TERNARY_IF_THEN : Str := [' + ', '.join(f"'{ch}'" for ch in name) + ']\n']
    c = Ctx(RERR, 'Err', module_fns=fns, consts={'TERNARY_IF_THEN': name})
    d0, a0 = c.pure_fn(find_fn(s, 'expressions_are_const'), 'expressions_are_const')
    out.append(mutual([d0] + a0))
    m = MutCtx(RERR, 'Err', module_fns=fns, consts={'TERNARY_IF_THEN': name})
    d1, a1 = m.mut_fn(find_fn(s, 'transform_ternary'), 'transform_ternary'); out.append(mutual([d1] + a1))
    d2, a2 = m.mut_fn(find_fn(s, 'fold_constants'), 'fold_constants'); out.append(mutual([d2] + a2))
    l = LoopCtx(RERR, 'Err', module_fns=fns, consts={'TERNARY_IF_THEN': name})
    d3, a3 = l.mut_fn(find_fn(s, 'optimize'), 'optimize'); out.append('\n'.join(a3) + '\n\n' + d3 + '\n')
    return HEADER % ('SrcOptimizer', 'optimizer.rs (and the constant TERNARY_IF_THEN of stdlib/common.rs)',
                     'SlacProps/C05Source.lean proves that `transform` / `fold` / `optimize` of SlacModel/Optimizer.lean are these functions.',
                     'SlacModel.Optimizer', 'SrcOptimizer') + 'open Slac.Opt (OptRes)\n\n' + '\n'.join(out) + '\nend Slac.Generated.SrcOptimizer\n'

def gen_env(src):
    s = open(os.path.join(src, 'environment.rs')).read()
    hdr = 'impl Environment for StaticEnvironment'
    c = Ctx(RERR, 'NativeError', selfty='senv', module_fns={})
    # get_env_key must be `name.to_lowercase()`: the model's `fold` parameter stands for exactly that
    k = find_fn(s, 'get_env_key')
    if k['body'] != ('block', [], ('mcall', ('path', ['name']), 'to_lowercase', None, [])): raise Unrecognised('get_env_key is not `name.to_lowercase()`')
    out = ['/-- `get_env_key` is `name.to_lowercase()`; `fold` below stands for it (instantiated with the Unicode lower-casing in the driver) -/\ndef getEnvKeyIsToLowercase : Bool := true\n',
           'section\nvariable (fold : Str → Str)\n']
    CTORS[('NativeError', 'FunctionNotFound')] = ('.functionNotFound', [0], ['str'])
    extra = [('fold', 'foldfn')]
    LEAN_TYPE['foldfn'] = 'Str → Str'
    for rust, lean in (('variable', 'variable_'), ('call', 'call_'), ('variable_exists', 'variable_exists'), ('function_exists', 'function_exists')):
        f = find_fn(s, rust, hdr)
        f['params'] = [('self', '&Self')] + [p for p in f['params'] if p[0] != 'self']
        d, a = c.pure_fn(f, lean, extra_params=[])
        out.append(d.replace(f'def {lean} ', f'def {lean} ', 1) + '\n')
    out.append(gen_env_mutators(s, c))
    return HEADER % ('SrcEnv', 'environment.rs (`impl Environment for StaticEnvironment`, `get_env_key`)',
                     'SlacProps/C19Source.lean proves that the observations of SlacModel/Env.lean are these functions.',
                     'SlacModel.Env', 'SrcEnv') + '\n'.join(out) + '\nend\nend Slac.Generated.SrcEnv\n'

def gen_env_mutators(s, c):
    """`impl StaticEnvironment`: the `&mut self` methods.  Each body must be ONE HashMap operation on one of the two maps (or a loop of
       `self.add_function`); the method becomes a function returning the new environment (and the operation's result)."""
    out = []
    MAP = {'variables': ('vars', 'value'), 'functions': ('fns', 'func')}
    def field_of(e):
        if e[0] == 'field' and e[1] == ('path', ['self']) and e[2] in MAP: return e[2]
        raise Unrecognised('not a map of self')
    def one_stmt(f):
        b = f['body']
        if b[0] != 'block': raise Unrecognised('body')
        items = list(b[1]) + ([('expr', b[2])] if b[2] is not None else [])
        if len(items) != 1 or items[0][0] != 'expr': raise Unrecognised(f'{f["name"]}: more than one statement')
        return items[0][1], b[2] is not None
    sig = {'add_variable': '(self : StaticEnv N) (name : Str) (value : Value N) : StaticEnv N', 'remove_variable': '(self : StaticEnv N) (name : Str) : StaticEnv N × Option (Value N)',
           'clear_variables': '(self : StaticEnv N) : StaticEnv N', 'add_function': '(self : StaticEnv N) (func : Fn N) : StaticEnv N',
           'add_functions': '(self : StaticEnv N) (functions : List (Fn N)) : StaticEnv N', 'remove_function': '(self : StaticEnv N) (name : Str) : StaticEnv N × Option (Fn N)',
           'list_functions': '(self : StaticEnv N) : List (Fn N)'}
    envs = {'add_variable': {'name': ('name', 'str'), 'value': ('value', 'value')}, 'remove_variable': {'name': ('name', 'str')}, 'clear_variables': {},
            'add_function': {'func': ('func', 'func')}, 'add_functions': {'functions': ('functions', 'funcs')}, 'remove_function': {'name': ('name', 'str')}, 'list_functions': {}}
    for name in ('add_variable', 'remove_variable', 'clear_variables', 'add_function', 'add_functions', 'remove_function', 'list_functions'):
        f = find_fn(s, name, 'impl StaticEnvironment')
        e, is_tail = one_stmt(f)
        env = dict(envs[name]); env['self'] = ('self', 'senv')
        if e[0] == 'mcall' and e[2] == 'insert' and len(e[4]) == 2:
            fld = field_of(e[1]); lf, _ = MAP[fld]
            k, _ = c.tx(e[4][0], env); v, _ = c.tx(e[4][1], env)
            body = f'{{ self with {lf} := ins {c.paren(k)} {c.paren(v)} self.{lf} }}'
        elif e[0] == 'mcall' and e[2] == 'remove' and len(e[4]) == 1 and is_tail:
            fld = field_of(e[1]); lf, _ = MAP[fld]
            k, _ = c.tx(e[4][0], env)
            body = f'({{ self with {lf} := del {c.paren(k)} self.{lf} }}, alGet {c.paren(k)} self.{lf})'
        elif e[0] == 'mcall' and e[2] == 'clear' and not e[4]:
            fld = field_of(e[1]); lf, _ = MAP[fld]
            body = f'{{ self with {lf} := [] }}'
        elif e[0] == 'for' and e[1][0] == 'pbind' and c.strip_refs(e[2]) == ('path', ['functions']):
            x = e[1][1]; st = e[3]
            inner = list(st[1]) + ([('expr', st[2])] if st[2] is not None else [])
            if len(inner) != 1 or inner[0][1] != ('mcall', ('path', ['self']), 'add_function', None, [('path', [x])]): raise Unrecognised('add_functions loop body')
            body = f'functions.foldl (fun self {x} => add_function fold self {x}) self'
        elif e == ('mcall', ('mcall', ('mcall', ('field', ('path', ['self']), 'functions'), 'values', None, []), 'cloned', None, []), 'collect', None, []):
            body = 'self.fns.map (·.2)'
        else: raise Unrecognised(f'{name}: body not recognised')
        out.append(f'/-- `StaticEnvironment::{name}` -/\ndef {name} {sig[name]} :=\n  {body}\n')
    return '\n'.join(out)

def gen_order(src):
    s = open(os.path.join(src, 'value.rs')).read()
    fns = {'cmp': ('cmp', ['value', 'value'], 'ordering'), 'eq': ('eq', ['value', 'value'], 'bool'), 'ordinal': ('ordinal', ['value'], 'u8'),
           'empty': ('empty', ['value'], 'value'), 'is_empty': ('is_empty', ['value'], 'bool'), 'as_bool': ('as_bool', ['value'], 'bool')}
    c = Ctx(RERR, 'Err', selfty='value', module_fns=fns)
    pc = find_fn(s, 'partial_cmp', 'impl PartialOrd for Value')
    if pc['body'] != ('block', [], ('call', ('path', ['Some']), [('mcall', ('path', ['self']), 'cmp', None, [('path', ['other'])])])):
        raise Unrecognised('PartialOrd::partial_cmp is not `Some(self.cmp(other))`')
    d_ord, _ = c.pure_fn(find_fn(s, 'ordinal'), 'ordinal')
    d_cmp, _ = c.pure_fn(find_fn(s, 'cmp', 'impl Ord for Value'), 'cmp')
    d_eq, _ = c.pure_fn(find_fn(s, 'eq', 'impl PartialEq for Value'), 'eq')
    d_emp, _ = c.pure_fn(find_fn(s, 'empty'), 'empty')
    d_ise, _ = c.pure_fn(find_fn(s, 'is_empty'), 'is_empty')
    d_asb, _ = c.pure_fn(find_fn(s, 'as_bool'), 'as_bool')
    cmp_list = ('/-- `<[Value] as PartialOrd>::partial_cmp` (Rust std: lexicographic by the elements\' `partial_cmp`, then by length); the elements\' `partial_cmp` is\n'
                '    `Some(self.cmp(other))` (checked above), so the result is never `None` -/\n'
                'def cmpList : List (Value N) → List (Value N) → Ordering\n  | [], [] => .eq\n  | [], _ :: _ => .lt\n  | _ :: _, [] => .gt\n'
                '  | a :: as, b :: bs => match cmp a b with\n    | .eq => cmpList as bs\n    | o => o')
    eq_list = ('/-- `<[Value] as PartialEq>::eq` (Rust std: same length and element-wise `==`) -/\n'
               'def eqList : List (Value N) → List (Value N) → Bool\n  | [], [] => true\n  | a :: as, b :: bs => eq a b && eqList as bs\n  | _, _ => false')
    body = d_ord + '\n\n' + mutual([d_cmp, cmp_list]) + '\n' + mutual([d_eq, eq_list]) + '\n' + d_emp + '\n\n' + d_ise + '\n\n' + d_asb + '\n'
    return HEADER % ('SrcOrder', 'value.rs (`Ord::cmp`, `PartialEq::eq`, `ordinal`, `empty`, `is_empty`, `as_bool`)',
                     'SlacProps/C13Source.lean proves that `Value.cmp` / `Value.eq` / `Value.isEmpty` / `Value.asBool` of SlacModel/Value.lean are these functions.',
                     'SlacModel.Value', 'SrcOrder') + body + '\nend Slac.Generated.SrcOrder\n'


# =====================================================================================================================
# effectful functions (src/interpreter.rs): everything that evaluates sub-expressions or calls the environment is translated into the
# writer monad `W N` of SlacModel/SrcPrelude.lean, whose log is the sequence of `Environment::variable` / `Environment::call` events.
# Rust's evaluation order (statements in order, arguments left to right, `?` returns at once, iterators are lazy and
# `collect::<Result<_>>()` stops at the first `Err`) becomes the order of the binds.

class EffCtx(Ctx):
    """`impl TreeWalkingInterpreter`: `expression` is the one recursive function; the helpers it dispatches to (unary, binary, boolean,
       ternary, array, variable, call, get_values) are INLINED at their call sites (their parameters bound by `let`), so that the
       recursion is structural on the tree."""
    def __init__(self, src_text, **kw):
        super().__init__(**kw); self.src_text = src_text; self.n = 0; self.depth = 0
    def gensym(self, base='t'):
        self.n += 1; return f'{base}{self.n}'

    EFFECTFUL_METHODS = ('expression', 'unary', 'binary', 'boolean', 'ternary', 'array', 'variable', 'call', 'get_values')

    def effectful(self, e):
        """does evaluating e perform environment events?"""
        if isinstance(e, tuple):
            if e and e[0] == 'mcall':
                recv = e[1]
                if recv == ('path', ['self']) and e[2] in self.EFFECTFUL_METHODS: return True
                if recv == ('field', ('path', ['self']), 'environment') and e[2] in ('variable', 'call'): return True
            if e and e[0] == 'closure': return False if not self._eff_any(e[2]) else True
            return any(self.effectful(x) for x in e[1:])
        if isinstance(e, list): return any(self.effectful(x) for x in e)
        return False
    def _eff_any(self, e): return self.effectful(e)
    def has_try(self, e):
        if isinstance(e, tuple):
            if e and e[0] == 'try': return True
            if e and e[0] == 'closure': return False
            return any(self.has_try(x) for x in e[1:])
        if isinstance(e, list): return any(self.has_try(x) for x in e)
        return False

    # ---- pure layer: value operators of the interpreter ---------------------------------------------------------------------------
    def tx(self, e, env):
        e0 = self.strip_refs(e)
        if e0[0] == 'unop' and e0[1] in ('-', '!'):
            s, t = self.tx(e0[2], env)
            if t == 'value': return (f'Value.neg {self.paren(s)}' if e0[1] == '-' else f'Value.not {self.paren(s)}'), ('res', 'value')
        if e0[0] == 'binop':
            l, lt = self.tx(e0[2], env); r, rt = self.tx(e0[3], env); op = e0[1]
            if lt == 'value' and rt == 'value':
                L, Rr = self.paren(l), self.paren(r)
                table = {'+': f'Value.add {L} {Rr}', '-': f'Value.arith NumOps.sub .minus {L} {Rr}', '*': f'Value.arith NumOps.mul .multiply {L} {Rr}',
                         '/': f'Value.arith NumOps.div .divide {L} {Rr}', '%': f'Value.arith NumOps.rem .mod {L} {Rr}', '^': f'Value.xor {L} {Rr}'}
                if op in table: return table[op], ('res', 'value')
                cmpt = {'>': 'Value.gt', '>=': 'Value.ge', '<': 'Value.lt', '<=': 'Value.le'}
                if op in cmpt: return f'{cmpt[op]} {L} {Rr}', 'bool'
                if op == '==': return f'Value.eq {L} {Rr}', 'bool'
                if op == '!=': return f'!(Value.eq {L} {Rr})', 'bool'
        if e0[0] == 'mcall' and e0[2] == 'div_int' and len(e0[4]) == 1:
            l, lt = self.tx(e0[1], env); r, rt = self.tx(e0[4][0], env)
            if lt == 'value' and rt == 'value': return f'Value.arith (fun a b => NumOps.trunc (NumOps.div a b)) .div {self.paren(l)} {self.paren(r)}', ('res', 'value')
        if e0[0] == 'mcall' and e0[2] == 'map' and len(e0[4]) == 1 and e0[4][0][0] == 'closure':
            s, t = self.tx(e0[1], env)
            if isinstance(t, tuple) and t[0] == 'opt':
                cl = e0[4][0]; env1 = dict(env); p = self.pat(cl[1][0], t[1], env1); b, bt = self.tx(cl[2], env1)
                return f'Option.map (fun {p} => {b}) {self.paren(s)}', ('opt', bt)
        if e0[0] == 'mcall' and e0[2] == 'map_err' and len(e0[4]) == 1 and e0[4][0][0] == 'closure':
            s, t = self.tx(e0[1], env)
            if isinstance(t, tuple) and t[0] == 'nres':
                cl = e0[4][0]; env1 = dict(env); p = self.pat(cl[1][0], 'nerr', env1); b, bt = self.tx(cl[2], env1)
                return f'Except.mapError (fun {p} => {b}) {self.paren(s)}', ('res', t[1])
        if e0 == ('field', ('path', ['self']), 'environment'): return 'env', 'env'
        return super().tx(e, env)

    # ---- monadic layer ----------------------------------------------------------------------------------------------------------------
    def mtx(self, e, env, k, kret):
        """CPS: the Lean `do`-body (text) that evaluates e and continues with k(text_of_value, type, env); `kret(text, type)` is what
           happens when the enclosing FUNCTION returns a value (used by `?`)."""
        e = self.strip_refs(e) if e[0] in ('unop', 'mcall', 'call') else e
        if not self.effectful(e) and not self.has_try(e):
            s, t = self.tx(e, env); return k(s, t, env)
        kind = e[0]
        if kind == 'try':
            def after(s, t, env2):
                if not (isinstance(t, tuple) and t[0] == 'res'): raise Unrecognised('? on a non-Result')
                v = self.gensym('v')
                ok = k(v, t[1], self.bindv(env2, v, t[1]))
                return f'match {s} with\n| .error er => {self.oneline(kret(".error er", ("res", None)))}\n| .ok {v} =>\n  {self.indent(ok)}'
            return self.mtx(e[1], env, after, kret)
        if kind == 'block':
            return self.mblock(e, env, k, kret)
        if kind == 'match':
            return self.mmatch(e, env, k, kret)
        if kind == 'if':
            def after(c, ct, env2):
                if ct != 'bool': raise Unrecognised('if on a non-bool')
                a = self.mtx(e[2], dict(env2), k, kret); b = self.mtx(e[3], dict(env2), k, kret)
                return f'if {c} then\n  {self.indent(a)}\nelse\n  {self.indent(b)}'
            return self.mtx(e[1], env, after, kret)
        if kind == 'mcall':
            recv, name, tf, args = e[1], e[2], e[3], e[4]
            if recv == ('path', ['self']) and name == 'expression' and len(args) == 1:
                def after(a, at, env2):
                    t = self.gensym('r'); return f'let {t} ← interp_expression env {self.paren(a)}\n' + k(t, ('res', 'value'), self.bindv(env2, t, ('res', 'value')))
                return self.mtx(args[0], env, after, kret)
            if recv == ('path', ['self']) and name in self.EFFECTFUL_METHODS:
                return self.inline(name, tf, args, env, k, kret)
            if recv == ('field', ('path', ['self']), 'environment') and name in ('variable', 'call'):
                def with_args(texts, env2):
                    t = self.gensym('r')
                    if name == 'variable': return f'let {t} ← envVariable env {" ".join(self.paren(x) for x in texts)}\n' + k(t, ('opt', 'value'), self.bindv(env2, t, ('opt', 'value')))
                    return f'let {t} ← envCall env {" ".join(self.paren(x) for x in texts)}\n' + k(t, ('nres', 'value'), self.bindv(env2, t, ('nres', 'value')))
                return self.margs(args, env, with_args, kret)
            # lazy iterator collected into a Result: stops at the first Err
            if name == 'collect' and tf and 'Result' in tf and recv[0] == 'mcall' and recv[2] == 'map' and recv[1][0] == 'mcall' and recv[1][2] == 'iter' and len(recv[4]) == 1 and recv[4][0][0] == 'closure':
                xs, xt = self.tx(recv[1][1], env); cl = recv[4][0]
                if xt != 'exprs': raise Unrecognised('collect over a non-expression list')
                aux = self.collect_aux(cl, env)
                t = self.gensym('r'); return f'let {t} ← {aux} env {self.paren(xs)}\n' + k(t, ('res', 'values'), self.bindv(env, t, ('res', 'values')))
            # a pure method whose receiver or arguments are effectful: evaluate receiver, then the effectful arguments, in order
            def after_recv(rs, rt, env2):
                v = self.gensym('x'); env3 = self.bindv(env2, v, rt)
                eff_args = [a for a in args if self.effectful(a) or self.has_try(a)]
                def with_args2(pairs, env4):
                    it = iter(pairs)
                    new_args = [('path', [next(it)[0]]) if (self.effectful(a) or self.has_try(a)) else a for a in args]
                    s2, t2 = self.tx(('mcall', ('path', [v]), name, tf, new_args), env4); return k(s2, t2, env4)
                return f'let {v} := {rs}\n' + self.hoist(eff_args, env3, with_args2, kret)
            return self.mtx(recv, env, after_recv, kret)
        if kind == 'call':
            f = e[1]
            eff_args = [a for a in e[2] if self.effectful(a) or self.has_try(a)]
            def with_args2(pairs, env4):
                it = iter(pairs)
                new_args = [('path', [next(it)[0]]) if (self.effectful(a) or self.has_try(a)) else a for a in e[2]]
                s2, t2 = self.tx(('call', f, new_args), env4); return k(s2, t2, env4)
            return self.hoist(eff_args, env, with_args2, kret)
        raise Unrecognised(f'effectful expression of kind {kind}')

    def oneline(self, s): return s if '\n' not in s else '(' + s.replace('\n', '\n ') + ')'
    def bindv(self, env, name, ty):
        env = dict(env); env[name] = (name, ty); return env
    def alias(self, env, text, i): return text

    def hoist(self, args, env, k2, kret):
        """evaluate args left to right; every one is bound to a fresh name (pure ones by `let :=`); k2([(name, type)], env)"""
        def go(i, acc, env_i):
            if i == len(args): return k2(acc, env_i)
            a = args[i]
            def after(s, t, env2):
                if re.fullmatch(r"[A-Za-z_][\w']*", s) and s in env2 and env2[s][0] == s: return go(i + 1, acc + [(s, t)], env2)     # already a variable
                n = self.gensym('a'); env3 = self.bindv(env2, n, t)
                try: ann = f' : {lean_type(t, self.errty)}'
                except Unrecognised: ann = ''
                return f'let {n}{ann} := {s}\n' + go(i + 1, acc + [(n, t)], env3)
            return self.mtx(a, env_i, after, kret)
        return go(0, [], env)
    def margs(self, args, env, k2, kret):
        def go(i, acc, env_i):
            if i == len(args): return k2(acc, env_i)
            return self.mtx(args[i], env_i, lambda s, t, env2: go(i + 1, acc + [s], env2), kret)
        return go(0, [], env)

    def mblock(self, e, env, k, kret):
        _, stmts, tail = e
        def go(i, env_i):
            if i == len(stmts):
                if tail is None: raise Unrecognised('block without value')
                return self.mtx(tail, env_i, k, kret)
            st = stmts[i]
            if st[0] != 'let': raise Unrecognised('statement in an effectful block')
            def after(s, t, env2):
                env3 = dict(env2); p = self.pat(st[1], t, env3)
                return f'let {p} := {s}\n' + go(i + 1, env3)
            return self.mtx(st[2], env_i, after, kret)
        return go(0, dict(env))

    def mmatch(self, e, env, k, kret):
        _, scrut, arms = e
        sc = self.strip_refs(scrut)
        parts = sc[1] if sc[0] == 'tuple' else [sc]
        def with_scrut(pairs, env2):
            stext = ', '.join(n for n, _ in pairs); sty = ('tuple', [t for _, t in pairs]) if sc[0] == 'tuple' else pairs[0][1]
            lines = []
            for pats, g, b in arms:
                if g is not None: raise Unrecognised('guard in an effectful match')
                for p in pats:
                    env3 = dict(env2); pt = self.pat(p, sty, env3)
                    body = self.mtx(b, env3, k, kret)
                    lines.append(f'| {pt} =>\n    {self.indent(self.indent(body))}')
            return f'match {stext} with\n' + '\n'.join(lines)
        return self.hoist(parts, env, with_scrut, kret)

    def inline(self, name, tf, args, env, k, kret):
        """`self.<helper>(args)`: the helper's body with its parameters bound to the (already evaluated, pure) arguments; the helper's
           `return` / `?` continue with k"""
        self.depth += 1
        if self.depth > 12: raise Unrecognised('helper functions call each other recursively')
        f = find_fn(self.src_text, name)
        params = [(n, t) for n, t in f['params'] if n != 'self']
        if len(params) != len(args): raise Unrecognised(f'arity of {name}')
        consts = {}
        if tf:
            m = re.fullmatch(r'<\s*(true|false)\s*>', tf)
            g = re.search(r'fn\s+' + name + r'\s*<\s*const\s+(\w+)\s*:\s*bool\s*>', self.src_text)
            if not m or not g: raise Unrecognised(f'generic arguments of {name}')
            consts[g.group(1)] = (m.group(1), 'bool')
        def with_args(pairs, env2):
            env3 = dict(env2); env3.update(consts); pre = []
            for (pn, pty), (an, at) in zip(params, pairs):
                ty = rust_type(pty, self.selfty) if pty.strip() in RUST_TYPE else at
                if isinstance(ty, tuple) and ty[0] == 'mut': raise Unrecognised('&mut parameter of a helper')
                if pn != an: pre.append(f'let {pn} := {an}')
                env3[pn] = (pn, at if at is not None else ty)
            body = self.mtx(f['body'], env3, lambda s, t, env4: k(s, t, env2), lambda s, t: k(s, t, env2))
            return ('\n'.join(pre) + '\n' if pre else '') + body
        out = self.hoist(args, env, with_args, kret)
        self.depth -= 1
        return out

    def collect_aux(self, cl, env):
        name = 'get_values_each'
        if not any(a.startswith(f'def {name} ') for a in self.aux):
            env1 = {'env': ('env', 'env')}; p = self.pat(cl[1][0], 'expr', env1)
            body = self.mtx(cl[2], env1,
                            lambda s, t, e2: (f'match {s} with\n| .error er => pure (.error er)\n| .ok v =>\n  let rest ← {name} env rest\n  match rest with\n  | .error er => pure (.error er)\n  | .ok vs => pure (.ok (v :: vs))'),
                            lambda s, t: f'pure ({s})')
            self.aux.append(f'def {name} (env : Env N) : List (Expr N) → W N (Except Err (List (Value N)))\n  | [] => pure (.ok [])\n  | {p} :: rest => do\n    {self.indent(self.indent(body))}')
        return name

def gen_interp(src):
    s = strip_tests(open(os.path.join(src, 'interpreter.rs')).read())
    RUST_TYPE.update({'Operator': 'op', '&Value': 'value', 'Result <Value>': ('res', 'value'), 'Result <Vec <Value>>': ('res', 'values')})
    c = EffCtx(s, errs=RERR, errty='Err', selfty='interp')
    # `interprete` / `execute` must be `TreeWalkingInterpreter::new(env).expression(expression)`
    it = find_fn(s, 'interprete')
    want = ('block', [], ('mcall', ('call', ('path', ['TreeWalkingInterpreter', 'new']), [('path', ['env'])]), 'expression', None, [('path', ['expression'])]))
    if it['body'] != want: raise Unrecognised('interprete() is not `TreeWalkingInterpreter::new(env).expression(expression)`')
    lib = strip_tests(open(os.path.join(src, 'lib.rs')).read())
    ex = find_fn(lib, 'execute')
    exb = ex['body']
    if not (exb[0] == 'block' and exb[1] == [] and exb[2] and exb[2][0] == 'call' and exb[2][1][0] == 'path' and exb[2][1][1][-2:] == ['TreeWalkingInterpreter', 'interprete']
            and exb[2][2] == [('path', ['env']), ('path', ['ast'])]):
        raise Unrecognised('execute() is not `TreeWalkingInterpreter::interprete(env, ast)`')
    f = find_fn(s, 'expression')
    env = {'expression': ('expression', 'expr'), 'env': ('env', 'env')}
    c.cur = 'expression'; c.cur_params = [('env', 'env'), ('expression', 'expr')]
    body = c.mtx(f['body'], env, lambda t, ty, e2: f'pure ({t})' if not t.startswith('pure ') else t, lambda t, ty: f'pure ({t})')
    d = f'def interp_expression (env : Env N) (expression : Expr N) : W N (Except Err (Value N)) := do\n  {c.indent(body)}'
    return (HEADER % ('SrcInterp', 'interpreter.rs (`TreeWalkingInterpreter`: expression, unary, binary, boolean, ternary, get_values, array, variable, call) and `execute` of lib.rs',
                      'SlacProps/C04Source.lean proves that `evalT` of SlacModel/Interp.lean (result AND event trace) is this function.', 'SlacModel.SrcPrelude', 'SrcInterp')
            + 'open Slac.SrcPrelude\n\n' + mutual([d] + c.aux) + '\nend Slac.Generated.SrcInterp\n')

def gen_parser(src):
    # src/compiler.rs (`impl Compiler`, the Pratt parser): tools/rs2lean_parser.py, a state-monad translation of the `&mut self` methods
    from rs2lean_parser import gen_parser as g
    return g(src)

def gen_stdlib(src):
    # src/stdlib/mod.rs, common.rs, math.rs, string.rs and Value::len: tools/rs2lean_stdlib.py (33 functions: index helpers and parameter-dispatch builtins)
    from rs2lean_stdlib import gen_stdlib as g
    return g(src)

def gen_scanner(src):
    # src/scanner.rs (`impl Scanner`): tools/rs2lean_scanner.py, a state-monad translation over the two cursors; loops spend fuel
    from rs2lean_scanner import gen_scanner as g
    return g(src)

def gen_regex(src):
    # src/stdlib/regex.rs: the four wrappers over the model's abstract engine (tools/rs2lean_stdlib.py gen_regex)
    from rs2lean_stdlib import gen_regex as g
    return g(src)

def gen_time(src):
    # the core of src/stdlib/time.rs: number <-> NaiveDateTime conversions and the component builtins (tools/rs2lean_stdlib.py gen_time)
    from rs2lean_stdlib import gen_time as g
    return g(src)

def gen_serde(src):
    # the serde derives of src/ast.rs / src/operator.rs and `impl Serialize for Value`: tools/rs2lean_serde.py
    from rs2lean_serde import gen_serde as g
    return g(src)

TARGETS = (('SrcInterp', gen_interp), ('SrcValidate', gen_validate), ('SrcOptimizer', gen_optimizer), ('SrcEnv', gen_env), ('SrcOrder', gen_order),
           ('SrcParser', gen_parser), ('SrcStdlib', gen_stdlib), ('SrcScanner', gen_scanner), ('SrcSerde', gen_serde), ('SrcRegex', gen_regex), ('SrcTime', gen_time))

def main():
    a = sys.argv[1:]
    outdir = a[a.index('--outdir') + 1] if '--outdir' in a else '/verif/lean/SlacModel/Generated'
    src = a[a.index('--src') + 1] if '--src' in a else '/repo/src'
    rc = 0
    for name, fn in TARGETS:
        out = os.path.join(outdir, name + '.lean')
        try:
            text = fn(src)
        except Unrecognised as e:
            print(f'{name}: unrecognised: {e}'); rc = 3; continue
        except (OSError, IndexError, KeyError, AttributeError, TypeError, StopIteration) as e:
            print(f'{name}: unrecognised: {type(e).__name__} {e}'); rc = 3; continue
        if not os.path.exists(out) or open(out).read() != text:
            open(out, 'w').write(text); print(f'{name}: written')
        else: print(f'{name}: unchanged')
    sys.exit(rc)

if __name__ == '__main__':
    main()
